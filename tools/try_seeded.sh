#!/bin/bash
# tools/try_seeded.sh <patch file> PROP [PROP...]   apply to /repo, run the quick checks, undo
PATCH=$1; shift
cd /verif
git -C /repo apply --check "$PATCH" || { echo "PATCH DOES NOT APPLY to /repo HEAD"; exit 3; }
git -C /repo apply "$PATCH"
trap "git -C /repo checkout -- . ; git -C /repo status --short | head -3" EXIT
for p in "$@"; do
  VERIF_EVIDENCE_DIR=/tmp/seeded-ev VERIF_MAX_REPORTS=2 ./check $p --tier quick 2>&1 | grep "VIOLATION\|rule=\|quick:\|HARNESS" | cut -c1-260
done
