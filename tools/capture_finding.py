#!/venv/bin/python
"""tools/capture_finding.py PROP  - for every open finding of PROP whose replay file is missing, search seeds (known-finding
avoidance off), minimise the first matching violation and store it as findings/<file>. Run via: ./selftest-env python tools/..."""
import os, sys, json, shutil
ROOT = os.path.dirname(os.path.dirname(os.path.abspath(__file__)))
sys.path.insert(0, ROOT)
from sim import engine, runner, shrink, gen

def main():
    prop = sys.argv[1].upper()
    force = '--force' in sys.argv
    maxn = 4000
    o = engine.oracle(prop)
    fs = [f for f in engine.load_findings() if f.prop == prop and f.replay and (force or not os.path.exists(os.path.join(ROOT, f.replay)))]
    runner.warm()
    for f in fs:
        found = None
        for start in range(0, maxn, 64):
            items = [(prop, 12345, i, 'quick', []) for i in range(start, start + 64)]
            for r in runner.run_cases('sim.engine', 'run_case', items):
                if r and r['ok']:
                    for v in r['value']['violations']:
                        if f.matches(v):
                            found = (r['value']['case'], v)
                            break
                if found:
                    break
            if found:
                break
        if not found:
            print('no case found for', f.text)
            continue
        case, v = found
        def pred(c):
            rr = o.check_case(c, runner.execute)
            return any(f.matches(x) for x in rr['violations'])
        small = shrink.shrink(case, pred, max_evals=400, max_s=120, hist_keys=getattr(o, 'HIST_KEYS', ('history',)))
        rr = o.check_case(small, runner.execute)
        vv = next(x for x in rr['violations'] if f.matches(x))
        path = engine.write_replay(prop, small, vv, {'finding': f.text})
        dst = os.path.join(ROOT, f.replay)
        os.makedirs(os.path.dirname(dst), exist_ok=True)
        shutil.move(path, dst)
        print('captured', f.replay, 'ops', shrink.count_ops(small['scenario']['history']), vv['rule'], vv['fp'])

main()
