#!/bin/bash
# tools/mkmutant.sh NAME 'python code applying the edit in cwd=/tmp/mutwt'   -> mutants/NAME.patch
set -e
NAME=$1; CODE=$2
WT=/tmp/mutwt-$$
git -C /repo worktree add -q --detach $WT HEAD
trap "git -C /repo worktree remove --force $WT" EXIT
( cd $WT && /venv/bin/python -c "
def patch(path, old, new, count=1):
    s=open(path).read()
    assert s.count(old)==count, (path, old[:50], s.count(old))
    open(path,'w').write(s.replace(old,new))
$CODE
" && git diff > /verif/mutants/$NAME.patch )
wc -l /verif/mutants/$NAME.patch
