#!/bin/bash
# tools/capture_fixed.sh PROP COMMIT 'rule=... match={...}' findings/file.json 'text'
# captures (on the parent of COMMIT, in a scratch worktree) a minimal replay of the defect fixed by COMMIT and appends a fixed: line
set -e
cd "$(dirname "$0")/.."
PROP=$1; COMMIT=$2; SPEC=$3; OUT=$4; TEXT=$5
WT=/tmp/wt-cap-$$
git -C /repo worktree add -q --detach $WT ${COMMIT}^
trap "git -C /repo worktree remove --force $WT" EXIT
echo "open: property=$PROP $SPEC replay=$OUT :: TEMP-CAPTURE" >> KNOWN_FINDINGS.txt
VERIF_REPO_SRC=$WT/src ./pyenv tools/capture_finding.py $PROP || true
RULE=$(echo "$SPEC" | sed -n 's/.*rule=\([^ ]*\).*/\1/p')
/venv/bin/python - "$PROP" "$COMMIT" "$RULE" "$OUT" "$TEXT" <<'PY'
import sys, json, os
prop, commit, rule, out, text = sys.argv[1:]
s = open('KNOWN_FINDINGS.txt').read().splitlines()
s = [l for l in s if 'TEMP-CAPTURE' not in l]
if os.path.exists(out):
    rule = json.load(open(out))['rule']
    s.append('fixed: property=%s %s rule=%s replay=%s :: %s' % (prop, commit, rule, out, text))
else:
    print('NOT CAPTURED')
open('KNOWN_FINDINGS.txt', 'w').write('\n'.join(s) + '\n')
PY
