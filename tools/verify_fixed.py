#!/venv/bin/python
"""For every 'fixed:' line of KNOWN_FINDINGS.txt: the committed replay must FAIL on the parent of the fix commit
(scratch worktree outside /repo and /verif, removed afterwards) and PASS on the current tree."""
import os, sys, subprocess, shutil, tempfile
ROOT = os.path.dirname(os.path.dirname(os.path.abspath(__file__)))
sys.path.insert(0, ROOT)
from sim import engine

def run(prop, replay, src=None):
    env = dict(os.environ)
    if src:
        env['VERIF_REPO_SRC'] = src
    p = subprocess.run([os.path.join(ROOT, 'check'), prop, '--replay', os.path.join(ROOT, replay)], env=env,
                       capture_output=True, text=True, timeout=900)
    return p.returncode, p.stdout

def main():
    only = sys.argv[1:]
    bad = 0
    for f in engine.load_findings():
        if f.state != 'fixed' or not f.replay or (only and f.commit not in only and f.prop not in only):
            continue
        wt = tempfile.mkdtemp(prefix='vfix-', dir='/tmp')
        os.rmdir(wt)
        try:
            subprocess.run(['git', '-C', '/repo', 'worktree', 'add', '-q', '--detach', wt, f.commit + '^'], check=True,
                           capture_output=True)
            rc_before, out_b = run(f.prop, f.replay, os.path.join(wt, 'src'))
        finally:
            subprocess.run(['git', '-C', '/repo', 'worktree', 'remove', '--force', wt], capture_output=True)
            shutil.rmtree(wt, ignore_errors=True)
        rc_after, out_a = run(f.prop, f.replay)
        ok = rc_before == 1 and rc_after == 0
        bad += not ok
        print('%s %s %s before=%d after=%d %s' % ('OK ' if ok else 'BAD', f.prop, f.commit, rc_before, rc_after, f.replay))
        if not ok:
            print('   before:', out_b.strip()[-300:]); print('   after:', out_a.strip()[-300:])
    return 1 if bad else 0

sys.exit(main())
