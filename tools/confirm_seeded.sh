#!/bin/bash
# tools/confirm_seeded.sh <worktree> <id>  : confirm demo fails with / passes without the change, run the full suite with it (background log)
WT=$1; ID=$2
cd $WT || exit 2
git diff > /tmp/sa/$ID.patch
[ -s /tmp/sa/$ID.patch ] || { echo "$ID: empty diff"; exit 2; }
PYTHONPATH=$WT/src timeout 600 /venv/bin/python demo.py > /tmp/sa/$ID.demo_with.log 2>&1; W=$?
git checkout -q -- src
PYTHONPATH=$WT/src timeout 600 /venv/bin/python demo.py > /tmp/sa/$ID.demo_without.log 2>&1; WO=$?
git apply /tmp/sa/$ID.patch
echo "$ID demo_with_change_exit=$W demo_without_exit=$WO files=$(git diff --stat | tail -1)"
( PYTHONPATH=$WT/src timeout 1800 /venv/bin/python -m pytest -q -p no:cacheprovider src/tests > /tmp/sa/$ID.suite.log 2>&1; echo "$ID suite: $(tail -1 /tmp/sa/$ID.suite.log)" >> /tmp/sa/suite_results.txt ) &
