#!/venv/bin/python
"""Regenerate MANIFEST.json from the oracle modules present in sim/oracles (run from /verif)."""
import os, sys, json, importlib
sys.path.insert(0, os.path.dirname(os.path.dirname(os.path.abspath(__file__))))
sys.path.insert(0, '/repo/src')

NOTES = {}
TECH = 'deterministic simulation with fault injection: seeded op/fault/schedule search, every scenario in a fork of a pristine zygote'
NA = [
    {'property_id': 'C04', 'reason': 'EFLR component grammar is a pure function of the final object state of one set: no flush/chunk '
     'schedule, fault, crash point, call history, clock, RNG or TZ owned by the simulator can change it; deciding it needs '
     'grammar-directed input generation or proof, not simulation (DESIGN.md section 5). The strict component parser still '
     'runs on every file the simulator produces.'},
    {'property_id': 'C15', 'reason': 'writability is a pure function of (record body lengths, max_record_length); no fault, history '
     'or chunk schedule influences the two guards involved; deciding it is bounded enumeration over sizes (model checking), '
     'which this technique family excludes (DESIGN.md section 5). Valid specifications the writer refuses are counted as '
     'probe valid_spec_rejected in C01/C02/C10/C16 evidence.'},
]

def main():
    checks = []
    claimed = []
    for fn in sorted(os.listdir('sim/oracles')):
        if not (fn.startswith('c') and fn[1:3].isdigit() and fn.endswith('.py')):
            continue
        m = importlib.import_module('sim.oracles.' + fn[:-3])
        pid = m.ID
        claimed.append(pid)
        checks.append({
            'property_id': pid,
            'quick_cmd': './check %s --tier quick' % pid,
            'thorough_cmd': './check %s --tier thorough' % pid,
            'evidence_file': 'evidence/%s.json' % pid,
            'replay_cmd_template': './check %s --replay {path}' % pid,
            'engine': 'sim',
            'level_claimed': {'category': m.LEVEL, 'text': m.LEVEL_TEXT, 'design_ref': 'DESIGN.md section 4, %s' % pid},
            'level_note': m.LEVEL_NOTE,
            'technique': getattr(m, 'TECHNIQUE', TECH),
        })
    na = list(NA)
    allp = [json.loads(l)['id'] for l in open('properties.jsonl')]
    for pid in allp:
        if pid not in claimed and pid not in [x['property_id'] for x in na]:
            na.append({'property_id': pid, 'reason': 'claimable by this technique (DESIGN.md section 4) but its check is not built yet; not claimed until it is'})
    man = {
        'version': 1,
        'setup_cmd': './setup.sh',
        'hooks': {'guard': 'WELL_ID_DLISWRITER_VERIF', 'enable': 'none needed: no source hooks; every seam is rebound at run time '
                  '(builtins.open/io.open interposer, origin.datetime, np.random.seed, TZ, sys.settrace, logging handler); '
                  'checks import dliswriter from /repo/src working tree',
                  'baseline_off_cmd': 'cd /repo && /venv/bin/python -m pytest -ra -q -p no:cacheprovider --timeout=900 --continue-on-collection-errors',
                  'source_commits': [], 'add_only': True},
        'engines': [{'name': 'sim', 'path': 'sim/', 'serves_properties': claimed,
                     'kind_free_text': 'custom deterministic simulator: scenario JSON (ops, clients, schedule, fault plans) executed in forked children; SimFile I/O interposer, simulated clock/RNG/TZ, settrace interrupts, h5py proxy; independent strict RP66 reader; projection reference; ddmin shrinker'}],
        'checks': checks,
        'not_applicable': na,
        'notes': 'Exit codes: 0 held, 1 VIOLATION (replay file printed), 2 harness trouble (never a VIOLATION). Known findings: KNOWN_FINDINGS.txt.',
    }
    json.dump(man, open('MANIFEST.json', 'w'), indent=1)
    print('claimed', claimed)

main()
