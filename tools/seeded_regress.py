#!/venv/bin/python
"""tools/seeded_regress.py [ID...] - every independently written change under seeded/ must still be caught by the quick check of the
property it breaks: apply the patch to a scratch worktree of /repo HEAD (outside /repo and /verif), run, remove."""
import os, sys, subprocess, shutil, tempfile, json, re, time
ROOT = os.path.dirname(os.path.dirname(os.path.abspath(__file__)))

def main():
    only = sys.argv[1:]
    rows, bad = [], 0
    for sid in sorted(os.listdir(os.path.join(ROOT, 'seeded'))):
        d = os.path.join(ROOT, 'seeded', sid)
        if not os.path.isdir(d) or (only and sid not in only):
            continue
        meta = json.load(open(os.path.join(d, 'meta.json')))
        if meta.get('superseded'):
            rows.append((sid, meta['breaks_property'], 'superseded: ' + meta['superseded'][:70]))
            continue
        prop = meta.get('checked_by_property') or meta['breaks_property']   # (sd-C20: set order after a rejected call is C14's demand)
        wt = tempfile.mkdtemp(prefix='sreg-', dir='/tmp')
        os.rmdir(wt)
        try:
            subprocess.run(['git', '-C', '/repo', 'worktree', 'add', '-q', '--detach', wt, 'HEAD'], check=True, capture_output=True)
            applied = None
            for fn in ('patch_head.diff', 'patch.diff'):
                p = os.path.join(d, fn)
                if os.path.exists(p) and subprocess.run(['git', '-C', wt, 'apply', '--check', p], capture_output=True).returncode == 0:
                    subprocess.run(['git', '-C', wt, 'apply', p], check=True)
                    applied = fn
                    break
            if not applied:
                rows.append((sid, prop, 'PATCH DOES NOT APPLY TO HEAD'))
                bad += 1
                continue
            env = dict(os.environ, VERIF_REPO_SRC=os.path.join(wt, 'src'), VERIF_MAX_REPORTS='1', VERIF_EVIDENCE_DIR='/tmp/sreg-ev')
            t0 = time.time()
            q = subprocess.run([os.path.join(ROOT, 'check'), prop, '--tier', 'quick'], env=env, capture_output=True, text=True, timeout=1800)
            rule = re.search(r'rule=(\S+)', q.stdout)
            rows.append((sid, prop, 'exit=%d %s (%s, %.0fs)' % (q.returncode, rule.group(1) if rule else '', applied, time.time() - t0)))
            bad += q.returncode != 1
        finally:
            subprocess.run(['git', '-C', '/repo', 'worktree', 'remove', '--force', wt], capture_output=True)
            shutil.rmtree(wt, ignore_errors=True)
    for r in rows:
        print('%-8s %-4s %s' % r)
    print('seeded regress: %d changes, %d not detected by the check of their own property' % (len(rows), bad))
    return 1 if bad else 0

sys.exit(main())
