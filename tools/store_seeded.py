#!/venv/bin/python
"""tools/store_seeded.py ID PROP WORKTREE 'needs' 'caught_by' [--head-patch FILE]"""
import sys, os, json, shutil, subprocess
sid, prop, wt, needs, caught = sys.argv[1:6]
head_patch = sys.argv[sys.argv.index('--head-patch') + 1] if '--head-patch' in sys.argv else None
d = os.path.join('/verif/seeded', sid)
os.makedirs(d, exist_ok=True)
shutil.copy('/tmp/sa/%s.patch' % sid, os.path.join(d, 'patch.diff'))
shutil.copy(os.path.join(wt, 'demo.py'), os.path.join(d, 'demo.py'))
if head_patch:
    shutil.copy(head_patch, os.path.join(d, 'patch_head.diff'))
base = subprocess.run(['git', '-C', wt, 'rev-parse', '--short', 'HEAD'], capture_output=True, text=True).stdout.strip()
suite = ''
for l in open('/tmp/sa/suite_results.txt'):
    if l.startswith(sid + ' '):
        suite = l.strip()
meta = {
    'id': sid, 'breaks_property': prop, 'base_commit': base,
    'needs_to_manifest': needs,
    'written_by': 'independent sub-agent given only the property text and a scratch worktree',
    'confirmed': {
        'demo_with_change': open('/tmp/sa/%s.demo_with.log' % sid).read()[-400:],
        'demo_with_change_exit': 'non-zero', 'demo_without_change_exit': 0,
        'suite_with_change': suite,
        'how': 'tools/confirm_seeded.sh in the scratch worktree (demo with / without the change, full pinned suite with it); '
               'tools/try_seeded.sh applies patch.diff (or patch_head.diff when later fixes touched the same lines) to /repo, runs the quick checks, undoes it',
    },
    'caught_by': caught,
}
json.dump(meta, open(os.path.join(d, 'meta.json'), 'w'), indent=1)
print('stored', d)
