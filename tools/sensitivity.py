#!/venv/bin/python
"""./selftest sensitivity [NAME...]  - apply each mutants/<name>.patch (header line '# props: C10 C01') to a scratch worktree
of /repo (outside /repo and /verif), run the quick checks of the listed properties against it and expect a VIOLATION."""
import os, sys, subprocess, shutil, tempfile, re, json, time
ROOT = os.path.dirname(os.path.dirname(os.path.abspath(__file__)))

def main():
    names = [a for a in sys.argv[1:] if not a.startswith('-')]
    cases = next((a.split('=')[1] for a in sys.argv[1:] if a.startswith('--cases=')), None)
    src_dir = os.path.join(ROOT, 'mutants')
    meta = json.load(open(os.path.join(src_dir, 'props.json')))
    rows = []
    for fn in sorted(os.listdir(src_dir)):
        if not fn.endswith('.patch'):
            continue
        name = fn[:-6]
        if names and name not in names:
            continue
        props = meta.get(name, [])
        wt = tempfile.mkdtemp(prefix='mut-', dir='/tmp')
        os.rmdir(wt)
        try:
            subprocess.run(['git', '-C', '/repo', 'worktree', 'add', '-q', '--detach', wt, 'HEAD'], check=True, capture_output=True)
            p = subprocess.run(['git', '-C', wt, 'apply', os.path.join(src_dir, fn)], capture_output=True, text=True)
            if p.returncode:
                rows.append((name, 'PATCH-FAILED', p.stderr[-200:]))
                continue
            for prop in props:
                env = dict(os.environ, VERIF_REPO_SRC=os.path.join(wt, 'src'), VERIF_MAX_REPORTS='1', VERIF_EVIDENCE_DIR='/tmp')
                t0 = time.time()
                cmd = [os.path.join(ROOT, 'check'), prop, '--tier', 'quick'] + (['--cases', cases] if cases else [])
                q = subprocess.run(cmd, env=env, capture_output=True, text=True, timeout=1800)
                rule = re.search(r'rule=(\S+)', q.stdout)
                rows.append((name, prop, 'exit=%d %s %.0fs' % (q.returncode, rule.group(1) if rule else '', time.time() - t0)))
        finally:
            subprocess.run(['git', '-C', '/repo', 'worktree', 'remove', '--force', wt], capture_output=True)
            shutil.rmtree(wt, ignore_errors=True)
    bad = 0
    for r in rows:
        print('%-34s %-6s %s' % r)
        if 'exit=1' not in r[2]:
            bad += 1
    print('sensitivity: %d mutant/property pairs, %d not detected' % (len(rows), bad))
    return 1 if bad else 0

sys.exit(main())
