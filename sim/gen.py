"""Seeded generators: pure functions of a random.Random. Build op lists (scenario histories)."""
import copy

DTYPES = ['i1', 'i2', 'i4', 'u1', 'u2', 'u4', 'f4', 'f8']
SIZES = {'i1': 1, 'i2': 2, 'i4': 4, 'u1': 1, 'u2': 2, 'u4': 4, 'f4': 4, 'f8': 8}
NAME_POOL = ['A', 'B', 'DEPTH', 'TIME', 'RPM', 'GR', 'X1', 'AMPLITUDE', 'Z', 'chan-x', 'Q_7', 'N', 'lower case', 'M.1']
HC_NAMES = ['A', 'B', 'DEPTH', 'TIME', 'RPM', 'GR', 'X1', 'AMPLITUDE', 'Z', 'CH-X', 'Q_7', 'N', 'W2', 'IDX']
TZS = ['UTC', 'UTC', 'Asia/Kolkata', 'America/New_York', 'Europe/Oslo', 'Pacific/Auckland', 'Etc/GMT+9', 'Asia/Kathmandu']


AVOID = set()     # generator tags of open known findings to steer around (set by the engine per case)


def pick(rng, seq):
    return seq[rng.randrange(len(seq))]


def record_length(rng, small=0.75):
    r = rng.random()
    if r < small:
        return 2 * rng.randint(16, 128)            # 32..256
    if r < small + 0.08:
        return 8192
    if r < small + 0.12:
        return 16384
    return 2 * rng.randint(16, 8192)


def name(rng, used=None, hc=False, repeat=0.0):
    pool = HC_NAMES if hc else NAME_POOL
    if used and rng.random() < repeat:
        return pick(rng, sorted(used))
    for _ in range(20):
        n = pick(rng, pool)
        if rng.random() < 0.3:
            n = n + str(rng.randint(0, 99))
        if used is None or n not in used:
            return n
    return n + '_' + str(rng.randint(100, 999))


def array_recipe(rng, rows, dtype=None, width=None, order=None, layout=None, kind=None):
    dt = dtype or pick(rng, DTYPES)
    bo = order or ('>' if rng.random() < 0.3 else '<')
    if SIZES[dt] == 1:
        bo = '|'
    if bo == '>' and width is not None and 'be_array' in AVOID:
        bo = '<'
    shape = [rows] if width is None else [rows, width]
    rc = {'dtype': bo + dt, 'shape': shape, 'kind': kind or 'rand', 'seed': rng.randrange(1 << 30)}
    lay = layout or pick(rng, ['C', 'C', 'C', 'F', 'strided', 'readonly'])
    if lay != 'C':
        rc['layout'] = lay
    return rc


NP_NAME = {'i1': 'int8', 'i2': 'int16', 'i4': 'int32', 'u1': 'uint8', 'u2': 'uint16', 'u4': 'uint32', 'f4': 'float32', 'f8': 'float64'}
NP_CODE = {v: k for k, v in NP_NAME.items()}


def cast_literal(rng, np_name):
    """A cast dtype literal: the numpy scalar type, or a dtype object with an explicit (possibly non-native) byte order."""
    if rng.random() < 0.65:
        return {'$dtype': np_name}
    code = NP_CODE[np_name]
    bo = '|' if code[1] == '1' else rng.choice(['>', '>', '<', '='])
    return {'$npdtype': bo + code}


def index_recipe(rng, rows, dtype=None, mode=None):
    """A 1-D index channel: uniform / near-uniform / monotone / constant / noisy."""
    dt = dtype or pick(rng, ['f8', 'f8', 'f4', 'i4', 'i2', 'u2', 'u4', 'u1', 'i1'])
    bo = '|' if SIZES[dt] == 1 else ('>' if rng.random() < 0.2 else '<')
    mode = mode or pick(rng, ['uniform', 'uniform', 'uniform_dec', 'near', 'mono', 'mono_dec', 'const', 'noisy', 'edge'])
    isint = dt[0] in 'iu'
    step = rng.choice([1, 2, 5]) if isint else rng.choice([0.5, 0.25, 1.0, 0.1524, 10.0])
    start = rng.randint(0, 20) if isint else rng.choice([0.0, 100.0, 2500.5, -30.0])
    jit = [0]
    if mode in ('uniform_dec', 'mono_dec'):
        if dt[0] == 'u' or dt == 'i1':
            start = step * rows + rng.randint(0, 5)
        step = -step
    above = mode == 'edge_above'       # (always on the non-uniform side of the limit, with margin)
    if above:
        mode = 'edge'
    if mode == 'edge':
        # one sample displaced so that the squared relative deviation of the differences from their median lies just below or
        # just above the library's documented limit of 0.001 (relative displacement ~3.16 %)
        if SIZES[dt] == 1:
            mode = 'uniform'
        elif isint:
            step = rng.choice([30, 31, 33, 34, 40] if not above else [28, 29, 30]) * (1 if step > 0 else -1)
            jit = [0, 1, 0, 0, 0]
            if step < 0:
                start = abs(step) * rows + 5
        else:
            jit = [0, step * rng.choice([0.03, 0.031, 0.0322, 0.034] if not above else [0.034, 0.036]), 0, 0, 0]
    if above and mode != 'edge':
        mode = 'noisy'
    if mode == 'near' and not isint:
        jit = [0, step * 1e-4, -step * 2e-4, 0, step * 3e-4]
    elif mode in ('mono', 'mono_dec'):
        jit = [0, abs(step) * 0.5 if not isint else 1, 0, 0, abs(step) * 0.25 if not isint else 0]
    elif mode == 'const':
        step = 0
    elif mode == 'noisy':
        jit = [0, 3 * abs(step) + 1, -2 * abs(step), 5, 0]
    if dt == 'i1' or dt == 'u1':
        step = max(min(step, 1), -1)
        start = abs(start) % 20 + (rows if step < 0 else 0)
    rc = {'dtype': bo + dt, 'shape': [rows], 'kind': 'ramp', 'start': start, 'step': step}
    if jit != [0]:
        rc['jitter'] = jit
    return rc, mode


class Spec:
    """Op-list builder for one DLISFile ('client'). Tracks just enough metadata for generation and oracles."""

    def __init__(self, rng, fid='f0', px='', client=0, hc=False):
        self.rng = rng
        self.fid = fid
        self.px = px
        self.c = client
        self.hc = hc
        self.ops = []
        self.n = 0
        self.lfs = []            # [{'lf':id, 'channels':[...], 'frames':[...], 'nofmt':[...]}]
        self.mrl = None

    def h(self, kind):
        self.n += 1
        return '%s%s%d' % (self.px, kind, self.n)

    def emit(self, op):
        op = dict(op)
        op['c'] = self.c
        self.ops.append(op)
        return op

    def new_file(self, mrl=None, set_identifier=None, seq=None):
        kw = {}
        self.mrl = mrl
        if mrl is not None:
            kw['max_record_length'] = mrl
        if set_identifier is not None:
            kw['set_identifier'] = set_identifier
        if seq is not None:
            kw['sul_sequence_number'] = seq
        self.emit({'op': 'new_file', 'fid': self.fid, 'kwargs': kw})

    def logical_file(self, **kw):
        lf = '%sl%d' % (self.px, len(self.lfs))
        self.emit({'op': 'add_lf', 'fid': self.fid, 'lf': lf, 'kwargs': kw})
        info = {'lf': lf, 'channels': [], 'frames': [], 'nofmt': [], 'origins': [], 'objs': [], 'kw': kw}
        self.lfs.append(info)
        return info

    def origin(self, lfi, nm='ORIGIN', explicit=True, **kw):
        h = self.h('o')
        kwargs = dict(kw)
        if explicit:
            kwargs.setdefault('file_set_number', self.rng.randint(1, 2 ** 20))
            kwargs.setdefault('creation_time', {'$dt': '2020-03-04T05:06:07', 'tz': None})
        op = {'op': 'add', 'lf': lfi['lf'], 'kind': 'origin', 'h': h, 'name': nm, 'kwargs': kwargs}
        self.emit(op)
        lfi['origins'].append(h)
        return h

    def channel(self, lfi, nm, recipe=None, **kw):
        h = self.h('c')
        kwargs = dict(kw)
        if recipe is not None:
            kwargs['data'] = {'$arr': recipe}
        self.emit({'op': 'add', 'lf': lfi['lf'], 'kind': 'channel', 'h': h, 'name': nm, 'kwargs': kwargs})
        lfi['channels'].append({'h': h, 'name': nm, 'recipe': recipe, 'kw': kw})
        return h

    def frame(self, lfi, nm, chans, **kw):
        h = self.h('fr')
        kwargs = dict(kw)
        kwargs['channels'] = [{'$ref': c} for c in chans]
        self.emit({'op': 'add', 'lf': lfi['lf'], 'kind': 'frame', 'h': h, 'name': nm, 'kwargs': kwargs})
        lfi['frames'].append({'h': h, 'name': nm, 'channels': list(chans), 'kw': kw})
        return h

    def add(self, lfi, kind, nm, **kw):
        h = self.h(kind[:2])
        self.emit({'op': 'add', 'lf': lfi['lf'], 'kind': kind, 'h': h, 'name': nm, 'kwargs': kw})
        lfi['objs'].append({'h': h, 'kind': kind, 'name': nm})
        return h

    def no_format(self, lfi, nm, payloads, **kw):
        h = self.h('nf')
        self.emit({'op': 'add', 'lf': lfi['lf'], 'kind': 'no_format', 'h': h, 'name': nm, 'kwargs': kw})
        for p in payloads:
            self.emit({'op': 'nf_data', 'lf': lfi['lf'], 'nf': {'$ref': h}, 'data': p})
        lfi['nofmt'].append({'h': h, 'name': nm, 'payloads': payloads})
        return h


def frame_block(spec, lfi, rng, rows=None, n_ch=None, index=None, used=None, max_width=12, dtypes=None, inline=True,
                hc=False, set_name=None, frame_used=None):
    """One frame with its channels (inline data). Guarantees the FDATA body is >= 12 bytes."""
    used = used if used is not None else set()
    rows = rows or rng.choice([1, 2, 3, 5, 8, 13, rng.randint(1, 40)])
    n_ch = n_ch or rng.choice([1, 1, 2, 2, 3, 4])
    chans, recs = [], []
    index = rng.random() < 0.5 if index is None else index
    rowbytes = 0
    for k in range(n_ch):
        nm = name(rng, used, hc=hc)
        used.add(nm)
        if k == 0 and index:
            pool = [d for d in ['f8', 'f8', 'f4', 'u2', 'u4', 'u1', 'i4', 'i2', 'i1'] if not dtypes or d in dtypes]
            rc, mode = index_recipe(rng, rows, dtype=pick(rng, pool) if pool else None)
        else:
            dt = pick(rng, dtypes or DTYPES)
            width = None if rng.random() < 0.55 else rng.choice([1, 2, 3, 7, rng.randint(1, max_width)])
            rc = array_recipe(rng, rows, dtype=dt, width=width)
        recs.append((nm, rc))
        w = rc['shape'][1] if len(rc['shape']) > 1 else 1
        rowbytes += SIZES[rc['dtype'][1:]] * w
    fname = name(rng, frame_used, hc=hc)
    if frame_used is not None:
        frame_used.add(fname)
    if rowbytes + len(fname) + 4 < 12 and not (not hc and rng.random() < 0.35):
        # (records shorter than 12 bytes - writable since fix 29e88f3, padded with several flagged pad bytes - are kept in about a
        # third of the cases where they arise; otherwise the row is widened)
        nm, rc = recs[-1]
        need = 12 - (len(fname) + 4) - (rowbytes - SIZES[rc['dtype'][1:]] * (rc['shape'][1] if len(rc['shape']) > 1 else 1))
        if len(recs) == 1 and index:
            rc = dict(rc)
            rc['dtype'] = ('<' if rc['dtype'][0] == '|' else rc['dtype'][0]) + 'f8'
        else:
            rc = array_recipe(rng, rows, dtype='u1' if dtypes and 'u1' in dtypes else rc['dtype'][1:],
                              width=max(need, 1) // SIZES[rc['dtype'][1:]] + 1)
        recs[-1] = (nm, rc)
    ckw = {'set_name': set_name} if set_name is not None else {}
    for nm, rc in recs:
        chans.append(spec.channel(lfi, nm, rc if inline else None, **ckw))
    kw = dict(ckw)
    if index:
        kw['index_type'] = rng.choice(['BOREHOLE-DEPTH', 'VERTICAL-DEPTH', 'NON-STANDARD', 'TIME'] if not hc
                                      else ['BOREHOLE-DEPTH', 'VERTICAL-DEPTH', 'NON-STANDARD'])
    fh = spec.frame(lfi, fname, chans, **kw)
    return fh, chans, recs, rows


def payload(rng, cap, tiny_ok=False):
    """No-format payload literal with length biased to k*cap + d."""
    r = rng.random()
    if r < 0.5:
        k = rng.choice([0, 1, 1, 2, 3, 4])
        n = max(k * cap + rng.randint(-13, 13), 0)
    elif r < 0.8:
        n = rng.randint(12, 60)
    else:
        n = rng.randint(0, 4 * cap)
    if not tiny_ok:
        n = max(n, 12)
    b = rng.randbytes(n)
    t = rng.random()
    if t < 0.6:
        return {'$bytes': b.hex()}
    if t < 0.8:
        return {'$bytearray': b.hex()}
    t = ''.join(chr(32 + (x % 95)) for x in b)
    return {'$text': t} if rng.random() < 0.4 else t     # built at run time (a new object) or a literal


def simple_file(rng, spec=None, mrl=None, n_lf=1, nofmt=None, frames=None, hc=False, max_width=12, dtypes=None,
                set_names=False, tiny_ok=False, origin_kw=None):
    """A valid, data-centric file: per logical file an origin, 1-3 frames, optional no-format data."""
    spec = spec or Spec(rng)
    mrl = mrl or record_length(rng)
    spec.new_file(mrl=mrl, set_identifier='SET-%d' % rng.randint(0, 99) if rng.random() < 0.5 else None)
    cap = mrl - 8
    for li in range(n_lf):
        lkw = {}
        if rng.random() < 0.6 or n_lf > 1:
            lkw['fh_id'] = 'LF-%d-%d' % (li, rng.randint(0, 9999)) if not hc else 'LF-%d' % li
        if rng.random() < 0.3:
            lkw['fh_sequence_number'] = rng.choice([1, li + 1, 12345, 9999999999])
        lfi = spec.logical_file(**lkw)
        sn = {'set_name': 'S%d' % li} if (set_names or n_lf > 1) else {}
        spec.origin(lfi, nm='ORIGIN' if not n_lf > 1 else 'ORIGIN-%d' % li, **dict(origin_kw or {}, **sn))
        used = set()
        nfr = frames if frames is not None else rng.choice([1, 1, 1, 2, 3])
        for _ in range(nfr):
            fh, chans, recs, rows = frame_block(spec, lfi, rng, used=used, max_width=max_width, dtypes=dtypes, hc=hc)
            if sn:
                for op in spec.ops:
                    if op.get('op') == 'add' and op.get('lf') == lfi['lf'] and op['kind'] in ('channel', 'frame'):
                        op['kwargs'].setdefault('set_name', sn['set_name'])
        want_nf = nofmt if nofmt is not None else rng.random() < 0.4
        if want_nf:
            for k in range(rng.choice([1, 1, 2])):
                pl = [payload(rng, cap, tiny_ok=tiny_ok) for _ in range(rng.choice([1, 2, 3]))]
                spec.no_format(lfi, name(rng, None, hc=hc) + str(k), pl, **dict({'consumer_name': 'CN'}, **sn))
    return spec


def write_op(spec, path='out.dlis', ics=None, ocs=None, **kw):
    op = {'op': 'write', 'fid': spec.fid, 'path': path, 'c': spec.c}
    if ics is not None:
        op['input_chunk_size'] = ics
    op['output_chunk_size'] = ocs if ocs is not None else 1 << 20
    op.update(kw)
    return op


def ics_choices(rng, rows):
    c = [1, None, rows, rows + 3, rows + 1]
    if rows > 1:
        c += [rows - 1, max(rows // 2, 1), 2]
        c += [d for d in range(2, rows) if rows % d == 0][:2]
        c += [d for d in range(2, rows) if rows % d][:2]
    return c


def ocs_choices(rng, mrl, file_size):
    c = [mrl, mrl + 2, float(mrl), file_size, file_size + 1, max(file_size - 2, mrl), file_size - 80,
         rng.randint(mrl, max(file_size, mrl + 1)), rng.randint(mrl, max(2 * mrl, mrl + 1)), 1 << 20]
    return [x for x in c if x >= mrl]


def max_rows(spec):
    r = 1
    for op in spec.ops:
        d = (op.get('kwargs') or {}).get('data')
        if isinstance(d, dict) and '$arr' in d:
            r = max(r, d['$arr']['shape'][0])
    return r


def externalize(ops, kind, rng, extras=True, permute=True, h5name='data.h5', rename=True, partial=False):
    """Move inline channel data out of the add_channel ops into a write(data=...) argument of the given source kind.

    Returns (new_ops, data_param). Channel ops get a dataset_name when the source needs one.
    kind: 'dict' | 'struct' | 'h5'.  Falls back to 'dict' when 'struct' is impossible (unequal row counts).
    """
    ops = copy.deepcopy(ops)
    chans = []
    for op in ops:
        if op.get('op') == 'add' and op.get('kind') == 'channel' and not op.get('bad'):
            if partial and 'data' in op['kwargs'] and rng.random() < 0.5:
                continue           # this channel keeps its inline data: inline and write-time data are then mixed
            d = op['kwargs'].pop('data', None)
            if d is not None:
                chans.append((op, d['$arr']))
    rows = {min(rc['shape'][0], rc.get('rows', 10 ** 9)) for _, rc in chans}
    if kind == 'struct' and len(rows) > 1:
        kind = 'dict'
    names = []
    seen = {}
    for op, rc in chans:
        base = op['name']
        k = seen.get(base, 0)
        seen[base] = k + 1
        dn = base if k == 0 else '%s__%d' % (base, k)
        if kind == 'h5':
            dn = 'g%d/%s' % (rng.randint(0, 1), dn.replace(' ', '_').replace('.', '_')) if rng.random() < 0.6 else dn.replace(' ', '_').replace('.', '_')
            op['kwargs']['dataset_name'] = dn if rng.random() < 0.5 else '/' + dn
        elif (rename and rng.random() < 0.35) or k:
            if kind != 'struct' or True:
                dn = 'ds_%d_%s' % (len(names), base.replace(' ', '_'))
                op['kwargs']['dataset_name'] = dn
        names.append((dn, rc))
    items = [[dn, rc] for dn, rc in names]
    if extras and rng.random() < 0.5 and items and kind != 'struct':
        r0 = items[0][1]['shape'][0]
        items.append(['unused_extra', array_recipe(rng, r0, layout='C')])
    if permute and rng.random() < 0.6:
        rng.shuffle(items)
    if kind == 'dict':
        return ops, {'kind': 'dict', 'arrays': items}
    if kind == 'struct':
        if extras and rng.random() < 0.3 and items:
            items.append(['unused_extra', array_recipe(rng, items[0][1]['shape'][0], layout='C')])
        return ops, {'kind': 'struct', 'fields': items}
    if kind == 'h5':
        d = {'kind': 'h5', 'file': h5name, 'datasets': [['/' + dn.lstrip('/'), rc] for dn, rc in items]}
        if rng.random() < 0.5:
            # storage layout of the source file: chunked (k rows per storage chunk), possibly compressed - or contiguous
            d['h5_chunks'] = rng.choice([1, 2, 3, 4, 5, 7, 16])
            if rng.random() < 0.3:
                d['h5_compress'] = True
        return ops, d
    raise ValueError(kind)


def toposhuffle(rng, ops, keep_first=2, strength=1.0):
    """Random permutation of ops that respects handle dependencies (an op comes after the ops creating handles it uses).
    nf_data ops keep their relative order (payload order is observable)."""
    from . import values
    made_by = {}
    for i, op in enumerate(ops):
        if op.get('op') == 'add':
            made_by[op['h']] = i
        elif op.get('op') == 'add_lf':
            made_by['lf:' + op['lf']] = i
        elif op.get('op') == 'new_file':
            made_by['file:' + op['fid']] = i
    deps = []
    last_nf = None
    last_set = {}
    for i, op in enumerate(ops):
        d = set()
        if op.get('op') == 'add_lf':
            d.add(made_by.get('file:' + op['fid']))
        if op.get('op') in ('add', 'nf_data'):
            d.add(made_by.get('lf:' + op['lf']))
        for h in values.refs_in(op.get('kwargs')) + values.refs_in(op.get('nf')) + values.refs_in(op.get('v')):
            d.add(made_by.get(h))
        if op.get('op') in ('set', 'set_prop', 'set_attrs'):
            d.add(made_by.get(op['h']))
            if op['h'] in last_set:
                d.add(last_set[op['h']])
            last_set[op['h']] = i
        if op.get('op') == 'nf_data':
            if last_nf is not None:
                d.add(last_nf)
            last_nf = i
        if op.get('op') == 'add' and op.get('kind') == 'channel':
            # dataset names are derived from the channels already present: keep channel order within a logical file
            key = ('ch', op['lf'])
            if key in last_set:
                d.add(last_set[key])
            last_set[key] = i
        d.discard(None)
        d.discard(i)
        deps.append(d)
    done, out = set(), []
    remaining = list(range(len(ops)))
    while remaining:
        ready = [i for i in remaining if deps[i] <= done]
        if rng.random() < strength:
            i = ready[rng.randrange(len(ready))]
        else:
            i = ready[0]
        out.append(ops[i])
        done.add(i)
        remaining.remove(i)
    return out


def noise_file(rng, fid='noise', px='nz_', path='noise.dlis'):
    """A small other file built and written earlier in the same process (another record length, payloads, data)."""
    ns = Spec(rng, fid=fid, px=px, client=9)
    simple_file(rng, spec=ns, mrl=record_length(rng, small=0.7), n_lf=rng.choice([1, 1, 2]), max_width=3, frames=1,
                nofmt=rng.random() < 0.6, tiny_ok=True)
    return ns.ops + [write_op(ns, path=path, ocs=rng.choice([ns.mrl, ns.mrl + 40, 1 << 20]))]


def rejected_assignment(rng, ops, tag='bad_assignment', c=0, p_channel=0.45):
    """An assignment on an existing (validly added) object which the library must reject; it must leave no trace."""
    from . import schema
    cands = [op for op in ops if op.get('op') == 'add' and not op.get('bad') and op.get('h') and op.get('kind') in schema.S]
    if not cands:
        return None
    chans = [op for op in cands if op['kind'] == 'channel']
    op = pick(rng, chans) if chans and rng.random() < p_channel else pick(rng, cands)
    kind = op['kind']
    choices = []
    if kind == 'channel':
        choices += [('set_prop', 'cast_dtype', {'$dtype': 'int64'}), ('set_prop', 'cast_dtype', {'$dtype': 'float16'}),
                    ('set_prop', 'cast_dtype', 'not a dtype'), ('set_prop', 'cast_dtype', {'$dtype': 'bool_'})] * 3
    choices.append(('set_prop', 'name', 123))
    choices.append(('set_prop', 'origin_reference', 'x'))
    for kw, label, t in schema.S[kind]:
        base = t.split(':')[0]
        kw = {'eq_type': '_type', 'message_type': '_type', 'measurement_type': '_type'}.get(kw, kw)   # attribute names
        if base in ('text', 'texts'):
            choices.append(('set', kw, 12))
        elif base in ('num', 'nums', 'numsN', 'int'):
            choices.append(('set', kw, 'tall'))
        elif base == 'enum':
            choices.append(('set', kw, 'NOT-A-MEMBER'))
        elif base == 'status':
            choices.append(('set', kw, 7))
        elif base == 'dim':
            choices.append(('set', kw, [1.5]))
        elif base in ('ref', 'refs'):
            choices.append(('set', kw, 'not an object'))
        if not schema.units_allowed(t) and base in ('text', 'ident', 'status', 'dim', 'texts'):
            choices.append(('set_units', kw, 'm'))
    how, what, v = pick(rng, choices)
    if how == 'set_prop':
        return {'op': 'set_prop', 'h': op['h'], 'prop': what, 'v': v, 'c': c, 'bad': '%s_%s' % (tag, what)}
    if how == 'set_units':
        return {'op': 'set', 'h': op['h'], 'attr': what, 'part': 'units', 'v': v, 'c': c, 'bad': tag + '_units'}
    return {'op': 'set', 'h': op['h'], 'attr': what, 'part': 'value', 'v': v, 'c': c, 'bad': tag + '_value'}


def data_variant(rng, data):
    """The same datasets with other element types (a later write may bring data of another dtype)."""
    d = copy.deepcopy(data)
    swap = {'f8': 'f4', 'f4': 'f8', 'i2': 'i4', 'i4': 'i2', 'u2': 'u4', 'u4': 'u2', 'u1': 'u2', 'i1': 'i2'}
    changed = False
    for entry in d.get('arrays') or d.get('datasets') or []:
        rc = entry[1]
        dt = rc.get('dtype', '')
        if rc.get('kind', 'rand') in ('rand', 'hex') and dt[1:] in swap and rng.random() < 0.7 and rc.get('kind') != 'hex':
            rc['dtype'] = (dt[0] if dt[0] != '|' else '<') + swap[dt[1:]]
            changed = True
    return d if changed else None


def failed_attempt(rng, w, path='failed.dlis'):
    """A copy of write op / write kwargs `w` carrying one seeded fault (I/O error at an early event, or an interrupt at a line):
    an attempt that fails - or, if the fault point lies beyond the write, succeeds - before the write under test."""
    w2 = copy.deepcopy(w)
    w2['path'] = path
    fk = rng.choice(['open_fail', 'write_fail', 'write_fail', 'close_fail', 'interrupt', 'interrupt', 'interrupt'])
    if fk == 'interrupt':
        w2['faults'] = [{'kind': 'interrupt', 'at_line': rng.randint(1, 4000)}]
    else:
        flush = rng.choice([0, 1, 1, 2, 3])
        w2['faults'] = [{'kind': fk, 'at_event': 3 * flush + {'open_fail': 0, 'write_fail': 1, 'close_fail': 2}[fk],
                         'errno': rng.choice([5, 28]), 'partial': rng.choice([0, 7, 80]), 'lose': 0}]
    w2['failed_attempt'] = True
    return w2


def alias_arrays(rng, ops, p=0.1, keep_cast=False):
    """With probability p make two channels of equal row count share ONE array object (the caller passes the same ndarray twice)."""
    if rng.random() >= p:
        return False
    chans = [op for op in ops if op.get('op') == 'add' and op.get('kind') == 'channel' and not op.get('bad')
             and isinstance((op.get('kwargs') or {}).get('data'), dict) and '$arr' in op['kwargs']['data']]
    if len(chans) < 2:
        return False
    a, b = rng.sample(chans, 2)
    lit = a['kwargs']['data']
    lit.setdefault('$share', 'arr%08x' % rng.randrange(1 << 32))
    b['kwargs']['data'] = copy.deepcopy(lit)
    if not keep_cast:
        b['kwargs'].pop('cast_dtype', None)      # (a cast chosen as value-preserving for the old array need not be so for the new one)
    return True
