"""./check <ID> [--tier quick|thorough] [--replay FILE] [--cases N] [--wall S] [--workers N]"""
import os
import sys
import json
import argparse


def main(argv=None):
    ap = argparse.ArgumentParser()
    ap.add_argument('prop')
    ap.add_argument('--tier', default=os.environ.get('VERIF_TIER', 'quick'), choices=['quick', 'thorough'])
    ap.add_argument('--seed', type=int, default=int(os.environ.get('VERIF_SEED', '0') or 0))
    ap.add_argument('--replay')
    ap.add_argument('--cases', type=int)
    ap.add_argument('--wall', type=float)
    ap.add_argument('--workers', type=int)
    ap.add_argument('--quiet', action='store_true')
    a = ap.parse_args(argv)
    from . import engine, runner
    prop = a.prop.upper()
    if a.replay:
        try:
            rec, res, same = engine.replay_file(a.replay, prop)
        except runner.HarnessFailure as e:
            print('%s property=%s %s' % (e.kind, prop, e.detail[-1500:]))
            return 2
        if same:
            if not a.quiet:
                print('VIOLATION property=%s replay=%s' % (prop, os.path.abspath(a.replay)))
                for v in same[:3]:
                    print('  rule=%s fp=%s' % (v['rule'], json.dumps(v.get('fp'), default=engine.jdefault, sort_keys=True)))
                    print('  detail=%s' % json.dumps(v.get('detail'), default=engine.jdefault, sort_keys=True)[:1500])
            return 1
        if not a.quiet:
            print('replay %s: rule %s not reproduced (violations now: %s)' % (
                a.replay, rec['rule'], [v['rule'] for v in res['violations']]))
        return 0
    try:
        return engine.main_check(prop, a.tier, a.seed, cases=a.cases, wall=a.wall, workers=a.workers)
    except runner.HarnessFailure as e:
        print('%s property=%s %s' % (e.kind, prop, e.detail[-1500:]))
        return 2


if __name__ == '__main__':
    sys.exit(main())
