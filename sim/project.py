"""Projection reference: the part of a history that should determine the bytes of one write.

P(H, k) keeps, in order, the ops that (a) target the file written at step k or objects of it, (b) returned normally,
(c) are not earlier writes - plus the hc_block wrappers around kept ops - plus the write itself, fault-free, on a clean path.
"""
import copy


ENV_OPS = ('set_tz', 'seed_rng', 'set_log', 'set_clock')


def owner_maps(history):
    lf_fid, h_lf = {}, {}

    def walk(ops):
        for op in ops:
            o = op.get('op')
            if o == 'add_lf':
                lf_fid[op['lf']] = op['fid']
            elif o == 'add' or (o == 'nf_data' and op.get('h')):
                h_lf[op['h']] = op['lf']
            elif o == 'hc_block':
                walk(op.get('body', []))
    walk(history)
    return lf_fid, h_lf


def op_fid(op, lf_fid, h_lf):
    o = op.get('op')
    if o in ('new_file', 'add_lf', 'write', 'set_sul'):
        return op.get('fid')
    if o in ('add', 'nf_data', 'set_fh'):
        return lf_fid.get(op.get('lf'))
    if o in ('set', 'set_prop', 'set_attrs'):
        return lf_fid.get(h_lf.get(op.get('h')))
    return None


def project(history, steps, k, path=None, drop_kinds=('write',), keep_failed=False):
    """Projection for the top-level write op at index k (or (k, j) for a write inside an hc_block body)."""
    lf_fid, h_lf = owner_maps(history)
    if isinstance(k, tuple):
        wop = history[k[0]]['body'][k[1]]
    else:
        wop = history[k]
    fid = wop['fid']

    def clean_write(w):
        w = copy.deepcopy(w)
        for key in ('faults', 'prior', 'keep_existing', 'count_lines', 'propagate'):
            w.pop(key, None)
        if path:
            w['path'] = path
        return w

    out = []
    top = k[0] if isinstance(k, tuple) else k
    for i, op in enumerate(history[:top + 1]):
        st = steps[i] if i < len(steps) else None
        if op.get('op') == 'hc_block':
            body, bres = op.get('body', []), (st or {}).get('body') or []
            kept = []
            for j, bop in enumerate(body):
                if isinstance(k, tuple) and i == k[0] and j == k[1]:
                    kept.append(clean_write(bop))
                    break
                bst = bres[j] if j < len(bres) else None
                if _keep(bop, bst, fid, lf_fid, h_lf, drop_kinds, keep_failed):
                    b2 = copy.deepcopy(bop)
                    b2.pop('propagate', None)
                    b2.pop('faults', None)
                    kept.append(b2)
            if kept:
                o2 = {kk: vv for kk, vv in op.items() if kk != 'body'}
                o2['body'] = kept
                out.append(o2)
            continue
        if i == top:
            out.append(clean_write(op))
            break
        if _keep(op, st, fid, lf_fid, h_lf, drop_kinds, keep_failed):
            o2 = copy.deepcopy(op)
            o2.pop('faults', None)
            out.append(o2)
    return out


def _keep(op, st, fid, lf_fid, h_lf, drop_kinds, keep_failed):
    if op.get('op') in drop_kinds or op.get('op') in ('restart', 'flood', 'encode', 'cache_info', 'concurrent_writes'):
        return False
    if op.get('op') in ENV_OPS:
        return st is not None and st.get('out') == 'ok'      # the environment of the process belongs to every projection
    if op_fid(op, lf_fid, h_lf) != fid:
        return False
    if st is None:
        return False
    if st.get('out') != 'ok' and not keep_failed:
        return False
    return True


def writes_in(history):
    """Indices of write ops: int for top-level, (i, j) for writes inside hc_block bodies."""
    out = []
    for i, op in enumerate(history):
        if op.get('op') == 'write':
            out.append(i)
        elif op.get('op') == 'hc_block':
            for j, b in enumerate(op.get('body', [])):
                if b.get('op') == 'write':
                    out.append((i, j))
    return out


def step_at(steps, k):
    if isinstance(k, tuple):
        st = steps[k[0]]
        body = (st or {}).get('body') or []
        return body[k[1]] if k[1] < len(body) else None
    return steps[k]
