"""Expected file content of metadata objects, derived from the scenario (the specification) alone - C05/C07/C12/C17.

compare(model, dec, fid, env) -> (violations, stats): every attribute the user assigned is present under the object's set
type / name / label and decodes to an equal value; never-assigned attributes are absent except documented defaults.
The weakest relation the property states is used: numeric equality in the decoded code (sign of zero and NaN-ness
included), text equality, UTC instant to the millisecond, identity of the referenced object.
"""
import math
import datetime as _dt

from . import schema, model as M
from .oracles.common import V

SENTINEL = object()


def unwrap(lit):
    """(value literal, units literal or SENTINEL) from a kwarg literal in any assignment route."""
    if isinstance(lit, dict):
        inner = lit.get('$dict') if '$dict' in lit else lit.get('$setup') if '$setup' in lit else None
        if inner is not None:
            return inner.get('value', SENTINEL), inner.get('units', SENTINEL)
    return lit, SENTINEL


def flatten(v):
    if isinstance(v, dict) and '$tuple' in v:
        v = v['$tuple']
    if isinstance(v, dict) and '$npscalar' in v:
        import numpy as np
        return [np.dtype(v['$npscalar'][0]).type(v['$npscalar'][1]).item()]
    if isinstance(v, list):
        out = []
        for x in v:
            out.extend(flatten(x))
        return out
    return [v]


def unit_symbol(u):
    if isinstance(u, dict) and '$enum' in u:
        return schema.ENUMS[u['$enum'][0]][u['$enum'][1]]
    return u


def enum_symbol(v):
    if isinstance(v, dict) and '$enum' in v:
        return schema.ENUMS[v['$enum'][0]][v['$enum'][1]]
    return v


def instant_ms(lit, tzname):
    """UTC instant (ms since epoch, float) of a datetime literal; naive values are local time of the process zone."""
    import zoneinfo
    if isinstance(lit, str):
        for fmt in ('%Y/%m/%d %H:%M:%S', '%Y.%m.%d %H:%M:%S'):
            try:
                d = _dt.datetime.strptime(lit, fmt)
                break
            except ValueError:
                d = None
        if d is None:
            return None
        tz = None
    else:
        d = _dt.datetime.fromisoformat(lit['$dt'])
        if lit.get('fold'):
            d = d.replace(fold=1)
        tz = lit.get('tz')
    if tz is None:
        d = d.replace(tzinfo=zoneinfo.ZoneInfo(tzname or 'UTC'))
    elif isinstance(tz, (int, float)):
        d = d.replace(tzinfo=_dt.timezone(_dt.timedelta(minutes=tz)))
    else:
        d = d.replace(tzinfo=zoneinfo.ZoneInfo(tz))
    u = d.astimezone(_dt.timezone.utc)
    epoch = _dt.datetime(1970, 1, 1, tzinfo=_dt.timezone.utc)
    delta = u - epoch
    return (delta.days * 86400 + delta.seconds) * 1000 + delta.microseconds / 1000.0


def decoded_instant_ms(v, tzname):
    import zoneinfo
    d = _dt.datetime(v['y'], v['mo'], v['d'], v['h'], v['mn'], v['s'])
    if v['tz'] == 2:
        d = d.replace(tzinfo=_dt.timezone.utc)
    else:
        d = d.replace(tzinfo=zoneinfo.ZoneInfo(tzname or 'UTC'))
    epoch = _dt.datetime(1970, 1, 1, tzinfo=_dt.timezone.utc)
    delta = d.astimezone(_dt.timezone.utc) - epoch
    return (delta.days * 86400 + delta.seconds) * 1000 + v['ms']


def is_dt_lit(v):
    return (isinstance(v, dict) and '$dt' in v) or (isinstance(v, str) and len(v) == 19 and v[4] in '/.' and v[13] == ':')


def num_equal(want, got):
    if isinstance(want, dict) and '$npscalar' in want:
        want = want['$npscalar'][1]
    if isinstance(want, bool):
        want = int(want)
    if not isinstance(want, (int, float)) or not isinstance(got, (int, float)) or isinstance(got, bool):
        return False
    if isinstance(want, float) and want != want:
        return isinstance(got, float) and got != got
    if isinstance(got, float) and got != got:
        return False
    if want != got:
        return False
    if isinstance(got, float) and got == 0 and isinstance(want, float):
        return math.copysign(1, want) == math.copysign(1, got)
    return True


def value_class(want, got=None):
    if isinstance(want, float):
        if want != want:
            return 'nan'
        if want == 0:
            return 'neg_zero' if math.copysign(1, want) < 0 else 'zero'
        if math.isinf(want):
            return 'inf'
        return 'float'
    if isinstance(want, bool):
        return 'bool'
    if isinstance(want, int):
        return 'int'
    if isinstance(want, str):
        return 'str_len>127' if len(want) > 127 else 'str'
    if isinstance(want, dict):
        return next(iter(want)).strip('$')
    return type(want).__name__


class Exp:
    __slots__ = ('kw', 'label', 't', 'value', 'units', 'route', 'units_route')

    def __init__(self, kw, label, t):
        self.kw, self.label, self.t = kw, label, t
        self.value = SENTINEL
        self.units = SENTINEL
        self.route = None
        self.units_route = None


def expected_attrs(m):
    """{label: Exp} for a model object, from its creation kwargs and later assignments (latest wins)."""
    out = {}
    table = {kw: (label, t) for kw, label, t in schema.S.get(m.kind, [])}
    pyname = {schema.ITEM_ATTR.get((m.kind, kw), kw): kw for kw in table}
    for kw, lit in m.kwargs.items():
        if kw not in table or lit is None:
            continue
        label, t = table[kw]
        e = out.setdefault(label, Exp(kw, label, t))
        v, u = unwrap(lit)
        route = 'kw' if v is lit else ('dict' if '$dict' in lit else 'AttrSetup')
        if v is not SENTINEL and v is not None:
            e.value, e.route = v, route
        if u is not SENTINEL and u is not None:
            e.units, e.units_route = u, route
    for attr, part, lit, _ in m.sets_later:
        kw = pyname.get(attr, attr)
        if kw not in table:
            continue
        label, t = table[kw]
        e = out.setdefault(label, Exp(kw, label, t))
        if part == 'value':
            e.value, e.route = lit, 'later'
        elif part == 'units':
            e.units, e.units_route = lit, 'later'
    return out


def compare_value(e, a, loc, env_tz, m):
    """None if decoded attribute `a` equals expectation `e`, else (rule, detail, value class)."""
    t = e.t
    base, _, arg = t.partition(':')
    want = flatten(e.value)
    got = a.values or []
    if base == 'flag':
        want = [1 if (w is True or w == 1 or (isinstance(w, str) and w.lower() in ('1', 'true', 't', 'yes', 'y'))) else 0
                for w in want]
        base, arg = 'num', '15'
    if base == 'status':
        want = [int(w) for w in want]
    if len(want) != len(got):
        return 'value_mismatch', {'why': 'count', 'want_n': len(want), 'got_n': len(got)}, 'count'
    for w, g in zip(want, got):
        ok, cls = True, value_class(w)
        # (the property asks for an equal value "in the chosen representation code": which code the writer chooses for an
        # attribute is not part of it, so the code is only required to be of the right family)
        if base in ('text', 'texts'):
            ok = g == w and a.code in (19, 20, 27)
        elif base in ('ident', 'idents', 'unit_ident') or base.startswith('enum'):
            w2 = enum_symbol(w)
            ok = g == w2 and a.code in (19, 20, 27)
        elif base in ('num', 'nums', 'numsN', 'int', 'status', 'dim'):
            ok = num_equal(w, g) and a.code in (1, 2, 7, 12, 13, 14, 15, 16, 17, 18, 22, 26)
        elif base in ('dtime', 'dtime_or_num'):
            if is_dt_lit(w):
                cls = 'dtime_naive' if (isinstance(w, str) or w.get('tz') is None) else 'dtime_aware'
                if a.code != 21 or not isinstance(g, dict):
                    ok = False
                else:
                    wi, gi = instant_ms(w, env_tz), decoded_instant_ms(g, env_tz)
                    ok = wi is not None and abs(wi - gi) <= 1.0
            else:
                ok = num_equal(w, g)
        elif base in ('ref', 'refs', 'objref', 'objrefs', 'ref_or_text'):
            if isinstance(w, dict) and '$ref' in w:
                cls = 'ref'
                tgt = loc.get(w['$ref'])
                if tgt is None:
                    continue            # target not located (its own problem is reported elsewhere)
                tset, tobj, _ = tgt
                if a.code == 24:
                    ok = tuple(g) == (tset.type,) + tuple(tobj.name)
                else:
                    ok = a.code == 23 and tuple(g) == tuple(tobj.name)
            else:
                ok = g == w and a.code in (19, 20)
        elif base in ('maybe_nums', 'maybe_numsN'):
            ok = (g == w) if isinstance(w, str) else num_equal(w, g)
        else:
            ok = g == w
        if not ok:
            return 'value_mismatch', {'want': w, 'got': g, 'code': a.code}, cls
    return None


def compare(model, dec, fid, env_tz='UTC', prop='C05', kinds=None, check_absent=True, clock_live=True):
    out = []
    stats = {'objects': 0, 'attrs_checked': 0, 'absent_checked': 0, 'refs_checked': 0, 'skipped_unlocated': 0}
    loc, pairs = M.locate(model, dec, fid)
    bad_sets = set()
    for lfm, lfd, ms, rest in pairs:
        if lfd is None:
            continue
        hid = lfm.kwargs.get('fh_id', 'FILE-HEADER')
        for m in lfm.objects:
            if kinds and m.kind not in kinds:
                continue
            if m.h not in loc:
                stats['skipped_unlocated'] += 1
                continue
            s, o, li = loc[m.h]
            if s.errors:
                if id(s) not in bad_sets:
                    bad_sets.add(id(s))
                    e0 = s.errors[0]
                    out.append(V('%s.undecodable' % prop, {'set': s.type, 'why': e0.rule}, **e0.detail))
                continue
            stats['objects'] += 1
            if o.name[2] != m.name and not any(p == 'name' for p, _, _ in m.props_later):
                out.append(V('%s.wrong_object' % prop, {'set': s.type}, want=m.name, got=o.name))
                continue
            exp = expected_attrs(m)
            table = schema.by_label(m.kind)
            for label, e in exp.items():
                a = o.attrs.get(label, SENTINEL)
                fp = {'set': s.type, 'label': label, 'route': e.route, 'tz': 'utc' if env_tz in (None, 'UTC') else 'other'}
                if e.value is not SENTINEL:
                    if m.kind == 'channel' and label == 'LONG-NAME' and e.value == '':
                        continue
                    if m.kind == 'origin' and label == 'FILE-SET-NUMBER' and m.in_hc and False:
                        continue
                    if a is SENTINEL:
                        out.append(V('%s.missing' % prop, dict(fp, why='label_not_in_template'), object=m.name))
                        continue
                    if a is None or not a.has_value:
                        out.append(V('%s.missing' % prop, fp, object=m.name, want=e.value))
                        continue
                    stats['attrs_checked'] += 1
                    r = compare_value(e, a, loc, env_tz, m)
                    if r is not None:
                        rule, detail, cls = r
                        out.append(V('%s.%s' % (prop, rule), dict(fp, value_class=cls), object=m.name, **detail))
                        continue
                    if e.t.split(':')[0].startswith(('ref', 'objref')):
                        stats['refs_checked'] += 1
                if e.units is not SENTINEL and a not in (SENTINEL, None):
                    wu = unit_symbol(e.units)
                    if (a.units or '') != (wu or ''):
                        out.append(V('%s.units_mismatch' % prop, dict(fp, route=e.units_route,
                                                                       units_class='enum' if isinstance(e.units, dict) else 'str'),
                                     object=m.name, want=wu, got=a.units))
                elif a not in (SENTINEL, None) and a.units and e.value is not SENTINEL:
                    if not (m.kind == 'frame' and label in ('INDEX-MIN', 'INDEX-MAX', 'SPACING')):
                        out.append(V('%s.units_mismatch' % prop, dict(fp, why='units_never_assigned'), object=m.name, got=a.units))
            if not check_absent:
                continue
            allowed = schema.DEFAULTS.get(m.kind, set())
            for label, a in o.attrs.items():
                if a is None or not a.has_value or label in exp:
                    continue
                stats['absent_checked'] += 1
                fp = {'set': s.type, 'label': label}
                if label not in allowed:
                    out.append(V('%s.unexpected_present' % prop, fp, object=m.name, got=a.summary()))
                    continue
                # documented write-time defaults
                if m.kind == 'origin':
                    if label == 'FILE-ID' and (len(a.values) != 1 or a.values[0].rstrip() != hid.rstrip()):
                        out.append(V('%s.default_not_documented' % prop, fp, want=hid, got=a.values))
                    if label == 'FIELD-NAME' and a.values != ['WILDCAT']:
                        out.append(V('%s.default_not_documented' % prop, fp, want='WILDCAT', got=a.values))
                    if label == 'FILE-SET-NUMBER' and not (len(a.values) == 1 and a.code == 18 and 1 <= a.values[0] < 2 ** 30):
                        out.append(V('%s.default_not_documented' % prop, fp, got=a.values, code=a.code))
                    if label == 'CREATION-TIME' and clock_live:
                        import zlib
                        if m.now:
                            now = _dt.datetime.fromisoformat(m.now)
                        else:
                            hh = zlib.crc32(str(m.h).encode())
                            now = _dt.datetime(2021, 3, 4, 5, 6, 7, 89000) + _dt.timedelta(seconds=hh % 10 ** 7,
                                                                                          microseconds=hh % 999983)
                        wi = instant_ms({'$dt': now.isoformat(), 'tz': None}, env_tz)
                        if a.code != 21 or abs(decoded_instant_ms(a.values[0], env_tz) - wi) > 1.0:
                            out.append(V('%s.creation_time_not_now' % prop, dict(fp, tz='utc' if env_tz in (None, 'UTC') else 'other'),
                                         want_now=now.isoformat(), got=a.values))
                elif m.kind == 'channel' and label == 'LONG-NAME':
                    nm = m.name
                    for p, lit, _ in m.props_later:
                        if p == 'name':
                            nm = lit
                    if a.values != [nm]:
                        out.append(V('%s.default_not_documented' % prop, fp, want=nm, got=a.values))
    return out, stats
