"""Attribute tables of the object types, transcribed from RP66 V1 ch. 5-6 and the public add_* signatures
(keyword name -> standard label, value kind).  Nothing here is read from dliswriter classes.

Value kinds
  text / texts            ASCII (single / list)
  ident / idents          IDENT
  num:<code> / nums:<code>   numeric with fixed representation code (UVARI 18, UNORM 16, FDOUBL 7, ...)
  num / nums / numsN      numeric, code chosen by the writer (nums = list, numsN = nested lists allowed)
  int                     integer-only numeric, code chosen by the writer
  dtime                   DTIME only;     dtime_or_num  DTIME or float
  status                  STATUS 0/1;     flag  USHORT 0/1 (FRAME ENCRYPTED)
  ref:<kind> / refs:<kind>   OBNAME reference(s) to objects of <kind>;  objref / objrefs  OBJREF to any object; ref:any OBNAME to any
  ref_or_text:<kind>      OBNAME or ASCII
  dim                     list of UVARI
  enum:<Enum> (hard, raises on non-members) / enum_soft:<Enum> (warns outside high-compat mode) / enums:<Enum>
  unit_ident              IDENT holding a unit symbol (CHANNEL UNITS), soft enum Unit
  maybe_nums / maybe_numsN   list whose members are numbers or (non-numeric) strings
Units can be attached to: num*, nums*, int, dtime*, maybe_nums* (not to text/ident/ref/dim/status/enum).
"""

S = {}
S['origin'] = [
    ('file_set_name', 'FILE-SET-NAME', 'ident'), ('file_set_number', 'FILE-SET-NUMBER', 'num:18'),
    ('file_number', 'FILE-NUMBER', 'num:18'), ('file_type', 'FILE-TYPE', 'ident'), ('product', 'PRODUCT', 'text'),
    ('version', 'VERSION', 'text'), ('programs', 'PROGRAMS', 'texts'), ('creation_time', 'CREATION-TIME', 'dtime'),
    ('order_number', 'ORDER-NUMBER', 'text'), ('descent_number', 'DESCENT-NUMBER', 'num:16'),
    ('run_number', 'RUN-NUMBER', 'num:16'), ('well_id', 'WELL-ID', 'text'), ('well_name', 'WELL-NAME', 'text'),
    ('field_name', 'FIELD-NAME', 'text'), ('producer_code', 'PRODUCER-CODE', 'num:16'),
    ('producer_name', 'PRODUCER-NAME', 'text'), ('company', 'COMPANY', 'text'),
    ('name_space_name', 'NAME-SPACE-NAME', 'ident'), ('name_space_version', 'NAME-SPACE-VERSION', 'num:18')]
S['well_reference_point'] = [
    ('permanent_datum', 'PERMANENT-DATUM', 'text'), ('vertical_zero', 'VERTICAL-ZERO', 'text'),
    ('permanent_datum_elevation', 'PERMANENT-DATUM-ELEVATION', 'num:7'), ('above_permanent_datum', 'ABOVE-PERMANENT-DATUM', 'num:7'),
    ('magnetic_declination', 'MAGNETIC-DECLINATION', 'num:7'),
    ('coordinate_1_name', 'COORDINATE-1-NAME', 'text'), ('coordinate_1_value', 'COORDINATE-1-VALUE', 'num:7'),
    ('coordinate_2_name', 'COORDINATE-2-NAME', 'text'), ('coordinate_2_value', 'COORDINATE-2-VALUE', 'num:7'),
    ('coordinate_3_name', 'COORDINATE-3-NAME', 'text'), ('coordinate_3_value', 'COORDINATE-3-VALUE', 'num:7')]
S['axis'] = [('axis_id', 'AXIS-ID', 'ident'), ('coordinates', 'COORDINATES', 'maybe_nums'), ('spacing', 'SPACING', 'num')]
S['long_name'] = [
    ('general_modifier', 'GENERAL-MODIFIER', 'texts'), ('quantity', 'QUANTITY', 'text'),
    ('quantity_modifier', 'QUANTITY-MODIFIER', 'texts'), ('altered_form', 'ALTERED-FORM', 'text'), ('entity', 'ENTITY', 'text'),
    ('entity_modifier', 'ENTITY-MODIFIER', 'texts'), ('entity_number', 'ENTITY-NUMBER', 'text'),
    ('entity_part', 'ENTITY-PART', 'text'), ('entity_part_number', 'ENTITY-PART-NUMBER', 'text'),
    ('generic_source', 'GENERIC-SOURCE', 'text'), ('source_part', 'SOURCE-PART', 'texts'),
    ('source_part_number', 'SOURCE-PART-NUMBER', 'texts'), ('conditions', 'CONDITIONS', 'texts'),
    ('standard_symbol', 'STANDARD-SYMBOL', 'text'), ('private_symbol', 'PRIVATE-SYMBOL', 'text')]
S['channel'] = [
    ('long_name', 'LONG-NAME', 'ref_or_text:long_name'), ('properties', 'PROPERTIES', 'enums:Property'),
    ('units', 'UNITS', 'unit_ident'), ('dimension', 'DIMENSION', 'dim'), ('axis', 'AXIS', 'refs:axis'),
    ('element_limit', 'ELEMENT-LIMIT', 'dim'), ('source', 'SOURCE', 'objref'),
    ('minimum_value', 'MINIMUM-VALUE', 'nums:7'), ('maximum_value', 'MAXIMUM-VALUE', 'nums:7')]
S['frame'] = [
    ('description', 'DESCRIPTION', 'text'), ('channels', 'CHANNELS', 'refs:channel'),
    ('index_type', 'INDEX-TYPE', 'enum_soft:FrameIndexType'), ('direction', 'DIRECTION', 'ident'), ('spacing', 'SPACING', 'num'),
    ('encrypted', 'ENCRYPTED', 'flag'), ('index_min', 'INDEX-MIN', 'num'), ('index_max', 'INDEX-MAX', 'num')]
S['path'] = [
    ('frame_type', 'FRAME-TYPE', 'ref:frame'), ('well_reference_point', 'WELL-REFERENCE-POINT', 'ref:well_reference_point'),
    ('value', 'VALUE', 'refs:channel'), ('borehole_depth', 'BOREHOLE-DEPTH', 'num'), ('vertical_depth', 'VERTICAL-DEPTH', 'num'),
    ('radial_drift', 'RADIAL-DRIFT', 'num'), ('angular_drift', 'ANGULAR-DRIFT', 'num'), ('time', 'TIME', 'num'),
    ('depth_offset', 'DEPTH-OFFSET', 'num'), ('measure_point_offset', 'MEASURE-POINT-OFFSET', 'num'),
    ('tool_zero_offset', 'TOOL-ZERO-OFFSET', 'num')]
S['zone'] = [('description', 'DESCRIPTION', 'text'), ('domain', 'DOMAIN', 'enum:ZoneDomain'),
             ('maximum', 'MAXIMUM', 'dtime_or_num'), ('minimum', 'MINIMUM', 'dtime_or_num')]
S['parameter'] = [('long_name', 'LONG-NAME', 'ref_or_text:long_name'), ('dimension', 'DIMENSION', 'dim'),
                  ('axis', 'AXIS', 'refs:axis'), ('zones', 'ZONES', 'refs:zone'), ('values', 'VALUES', 'maybe_numsN')]
S['equipment'] = [
    ('trademark_name', 'TRADEMARK-NAME', 'text'), ('status', 'STATUS', 'status'), ('eq_type', 'TYPE', 'enum_soft:EquipmentType'),
    ('serial_number', 'SERIAL-NUMBER', 'ident'), ('location', 'LOCATION', 'enum_soft:EquipmentLocation'),
    ('height', 'HEIGHT', 'num'), ('length', 'LENGTH', 'num'), ('minimum_diameter', 'MINIMUM-DIAMETER', 'num'),
    ('maximum_diameter', 'MAXIMUM-DIAMETER', 'num'), ('volume', 'VOLUME', 'num'), ('weight', 'WEIGHT', 'num'),
    ('hole_size', 'HOLE-SIZE', 'num'), ('pressure', 'PRESSURE', 'num'), ('temperature', 'TEMPERATURE', 'num'),
    ('vertical_depth', 'VERTICAL-DEPTH', 'num'), ('radial_drift', 'RADIAL-DRIFT', 'num'), ('angular_drift', 'ANGULAR-DRIFT', 'num')]
S['tool'] = [
    ('description', 'DESCRIPTION', 'text'), ('trademark_name', 'TRADEMARK-NAME', 'text'), ('generic_name', 'GENERIC-NAME', 'text'),
    ('parts', 'PARTS', 'refs:equipment'), ('status', 'STATUS', 'status'), ('channels', 'CHANNELS', 'refs:channel'),
    ('parameters', 'PARAMETERS', 'refs:parameter')]
S['computation'] = [
    ('long_name', 'LONG-NAME', 'ref_or_text:long_name'), ('properties', 'PROPERTIES', 'enums:Property'),
    ('dimension', 'DIMENSION', 'dim'), ('axis', 'AXIS', 'refs:axis'), ('zones', 'ZONES', 'refs:zone'),
    ('values', 'VALUES', 'numsN'), ('source', 'SOURCE', 'objref')]
S['process'] = [
    ('description', 'DESCRIPTION', 'text'), ('trademark_name', 'TRADEMARK-NAME', 'text'), ('version', 'VERSION', 'text'),
    ('properties', 'PROPERTIES', 'enums:Property'), ('status', 'STATUS', 'enum:ProcessStatus'),
    ('input_channels', 'INPUT-CHANNELS', 'refs:channel'), ('output_channels', 'OUTPUT-CHANNELS', 'refs:channel'),
    ('input_computations', 'INPUT-COMPUTATIONS', 'refs:computation'),
    ('output_computations', 'OUTPUT-COMPUTATIONS', 'refs:computation'), ('parameters', 'PARAMETERS', 'refs:parameter'),
    ('comments', 'COMMENTS', 'texts')]
S['calibration_measurement'] = [
    ('phase', 'PHASE', 'enum:CalibrationMeasurementPhase'), ('measurement_source', 'MEASUREMENT-SOURCE', 'objref'),
    ('measurement_type', 'TYPE', 'ident'), ('dimension', 'DIMENSION', 'dim'), ('axis', 'AXIS', 'refs:axis'),
    ('measurement', 'MEASUREMENT', 'numsN'), ('sample_count', 'SAMPLE-COUNT', 'int'),
    ('maximum_deviation', 'MAXIMUM-DEVIATION', 'numsN'), ('standard_deviation', 'STANDARD-DEVIATION', 'numsN'),
    ('begin_time', 'BEGIN-TIME', 'dtime_or_num'), ('duration', 'DURATION', 'num'), ('reference', 'REFERENCE', 'numsN'),
    ('standard', 'STANDARD', 'numsN'), ('plus_tolerance', 'PLUS-TOLERANCE', 'numsN'), ('minus_tolerance', 'MINUS-TOLERANCE', 'numsN')]
S['calibration_coefficient'] = [
    ('label', 'LABEL', 'ident'), ('coefficients', 'COEFFICIENTS', 'nums'), ('references', 'REFERENCES', 'nums'),
    ('plus_tolerances', 'PLUS-TOLERANCES', 'nums'), ('minus_tolerances', 'MINUS-TOLERANCES', 'nums')]
S['calibration'] = [
    ('calibrated_channels', 'CALIBRATED-CHANNELS', 'refs:channel'), ('uncalibrated_channels', 'UNCALIBRATED-CHANNELS', 'refs:channel'),
    ('coefficients', 'COEFFICIENTS', 'refs:calibration_coefficient'), ('measurements', 'MEASUREMENTS', 'refs:calibration_measurement'),
    ('parameters', 'PARAMETERS', 'refs:parameter'), ('method', 'METHOD', 'ident')]
S['group'] = [('description', 'DESCRIPTION', 'text'), ('object_list', 'OBJECT-LIST', 'objrefs'),
              ('group_list', 'GROUP-LIST', 'refs:group')]
S['splice'] = [('output_channel', 'OUTPUT-CHANNEL', 'ref:channel'), ('input_channels', 'INPUT-CHANNELS', 'refs:channel'),
               ('zones', 'ZONES', 'refs:zone')]
S['no_format'] = [('consumer_name', 'CONSUMER-NAME', 'ident'), ('description', 'DESCRIPTION', 'text')]
S['message'] = [
    ('message_type', 'TYPE', 'ident'), ('time', 'TIME', 'dtime_or_num'), ('borehole_drift', 'BOREHOLE-DRIFT', 'num'),
    ('vertical_depth', 'VERTICAL-DEPTH', 'num'), ('radial_drift', 'RADIAL-DRIFT', 'num'),
    ('angular_drift', 'ANGULAR-DRIFT', 'num'), ('text', 'TEXT', 'texts')]
S['comment'] = [('text', 'TEXT', 'texts')]

# Python attribute name on the item object for `.value` / `.units` assignment after creation (public item API):
ITEM_ATTR = {('equipment', 'eq_type'): '_type', ('message', 'message_type'): '_type',
             ('calibration_measurement', 'measurement_type'): 'type'}

ENUMS = {
    'ZoneDomain': {'BOREHOLE_DEPTH': 'BOREHOLE-DEPTH', 'TIME': 'TIME', 'VERTICAL_DEPTH': 'VERTICAL-DEPTH'},
    'ProcessStatus': {'COMPLETE': 'COMPLETE', 'ABORTED': 'ABORTED', 'IN_PROGRESS': 'IN-PROGRESS'},
    'CalibrationMeasurementPhase': {'AFTER': 'AFTER', 'BEFORE': 'BEFORE', 'MASTER': 'MASTER'},
    'FrameIndexType': {'ANGULAR_DRIFT': 'ANGULAR-DRIFT', 'BOREHOLE_DEPTH': 'BOREHOLE-DEPTH', 'NON_STANDARD': 'NON-STANDARD',
                       'RADIAL_DRIFT': 'RADIAL-DRIFT', 'VERTICAL_DEPTH': 'VERTICAL-DEPTH'},
    'EquipmentLocation': {'LOGGING_SYSTEM': 'Logging-System', 'REMOTE': 'Remote', 'RIG': 'Rig', 'WELL': 'Well'},
    'EquipmentType': {'ADAPTER': 'Adapter', 'BOARD': 'Board', 'CABLE': 'Cable', 'SONDE': 'Sonde', 'TOOL': 'Tool', 'PAD': 'Pad',
                      'TOOL_MODULE': 'Tool-Module', 'NUCLEAR_DETECTOR': 'Nuclear-Detector'},
    'Property': {'AVERAGED': 'AVERAGED', 'CALIBRATED': 'CALIBRATED', 'CHANGED_INDEX': 'CHANGED-INDEX', 'COMPUTED': 'COMPUTED',
                 'DEPTH_MATCHED': 'DEPTH-MATCHED', 'FILTERED': 'FILTERED', 'SPLICED': 'SPLICED', 'STD': 'STANDARD-DEVIATION',
                 'OVERSAMPLED': 'OVER-SAMPLED', 'NORMALIZED': 'NORMALIZED'},
    'Unit': {'METER': 'm', 'SECOND': 's', 'FOOT': 'ft', 'API_GAMMA_RAY': 'gAPI', 'DEGREE_CELSIUS': 'degC', 'KILOGRAM': 'kg',
             'INCH': 'in', 'OHM': 'ohm', 'MILLISECOND': 'ms', 'POUND_PER_SQUARE_INCH': 'psi', 'HERTZ': 'Hz', 'VOLT': 'V'},
}
UNITS_OK = ('num', 'nums', 'int', 'dtime', 'dtime_or_num', 'maybe_nums')


def kinds():
    return list(S)


def attr(kind, kw):
    for k, label, t in S[kind]:
        if k == kw:
            return label, t
    return None


def units_allowed(t):
    base = t.split(':')[0].rstrip('N')
    return base in UNITS_OK


def label_of(kind, kw):
    a = attr(kind, kw)
    return a[0] if a else None


def by_label(kind):
    return {label: (kw, t) for kw, label, t in S[kind]}


# documented write-time additions (labels that may be present although never assigned)
DEFAULTS = {
    'origin': {'FILE-ID', 'FILE-SET-NUMBER', 'CREATION-TIME', 'FIELD-NAME'},
    'channel': {'LONG-NAME', 'REPRESENTATION-CODE', 'DIMENSION', 'ELEMENT-LIMIT'},
    'frame': {'INDEX-MIN', 'INDEX-MAX', 'SPACING', 'DIRECTION'},
    'parameter': {'DIMENSION'}, 'computation': {'DIMENSION'}, 'calibration_measurement': {'DIMENSION'},
}
