"""The simulated world: seams (file I/O, clock, RNG, TZ, interrupts, h5 reads) and the op executor.

Runs inside a forked child.  Execution is a pure function of (scenario JSON, code under test).
"""
import os
import io
import sys
import time
import errno
import hashlib
import logging
import builtins
import datetime as _dt
import traceback

import numpy as np

from . import values

_ADDR = __import__('re').compile(r'0x[0-9a-fA-F]{6,}')
CRASH_EXIT = 77
HARNESS = os.path.dirname(os.path.abspath(__file__))


def sha(b):
    return hashlib.sha256(b).hexdigest()[:24]


class _Crash(BaseException):
    pass


class HarnessError(Exception):
    pass


# --------------------------------------------------------------------------------------
# file seam

class SimFile:
    """Proxy for a file object opened for writing inside the scratch directory."""

    def __init__(self, world, path, mode, args, kwargs):
        self._w = world
        self._path = path
        self._mode = mode
        self._closed = False
        world.io_event('open', self, None)          # may raise before any effect
        kwargs = dict(kwargs)
        extra = list(args[2:])
        # what the code under test asked for: buffering=0 is a RAW file, whose write() may transfer fewer bytes than given and
        # says so only through its return value; anything else is a buffered writer, which re-issues short raw writes itself
        asked = extra[0] if extra else kwargs.get('buffering', -1)
        self._raw_asked = asked == 0
        if extra:
            extra[0] = 0
        else:
            kwargs['buffering'] = 0                 # (the proxy itself always writes through: every write reaches the file at once)
        self._f = world.real_open(path, mode, *extra, **kwargs)
        world.io_done('open', self, 0, 0)

    def write(self, b):
        b = bytes(b) if not isinstance(b, (bytes, bytearray, memoryview)) else b
        n = self._w.io_event('write', self, b)
        return n

    def _raw_write(self, b):
        mv = memoryview(b)
        done = 0
        while done < len(mv):
            done += self._f.write(mv[done:])
        return done

    def flush(self):
        return self._f.flush()

    def close(self):
        if self._closed:
            return
        self._closed = True
        try:
            self._w.io_event('close', self, None)
        finally:
            self._f.close()

    def __enter__(self):
        return self

    def __exit__(self, *a):
        self.close()
        return False

    def __del__(self):
        # a file object dropped without close(): the interpreter closes it in the finaliser, where an error of the deferred
        # flush is ignored ("Exception ignored in ...") - the bytes that the failing close loses are lost silently
        try:
            if not self._closed and self.__dict__.get('_f') is not None:
                self._closed = True
                try:
                    self._w.io_event('close', self, None, implicit=True)
                except OSError:
                    pass
                finally:
                    self._f.close()
        except Exception:
            pass

    def __getattr__(self, k):
        if k == '_f':
            raise AttributeError(k)
        return getattr(self._f, k)

    @property
    def closed(self):
        return self._closed


class _FakeDatetimeMeta(type):
    # modules that say `isinstance(x, datetime)` / `issubclass(t, datetime)` must keep accepting ordinary date-times
    def __instancecheck__(cls, obj):
        return isinstance(obj, _dt.datetime)

    def __subclasscheck__(cls, sub):
        return issubclass(sub, _dt.datetime)


class FakeDatetime(_dt.datetime, metaclass=_FakeDatetimeMeta):
    def __new__(cls, *a, **k):
        # whatever the library constructs through the class (strptime, fromisoformat, datetime(...)) is an ordinary date-time
        return _dt.datetime(*a, **k)

    _now = None
    _reads = 0

    @classmethod
    def now(cls, tz=None):
        FakeDatetime._reads += 1
        n = FakeDatetime._now
        if n is None:
            raise HarnessError('simulated clock read but not set')
        if tz is not None:
            return n.replace(tzinfo=_dt.timezone.utc).astimezone(tz)
        return n


class _LogTap(logging.Handler):
    def __init__(self, world):
        logging.Handler.__init__(self, level=logging.INFO)
        self.world = world

    def emit(self, record):
        w = self.world
        try:
            if record.levelno >= logging.WARNING:
                w.warn_count += 1
                if len(w.warns) < 6:
                    w.warns.append(_ADDR.sub('0x?', record.getMessage().replace(w.scratch, '<scratch>'))[:120])
            elif record.name.endswith('file.writer'):
                m = record.getMessage()
                if m.startswith('Total file size is '):
                    w.reported_size = int(m.split()[4])
        except Exception:
            pass


# --------------------------------------------------------------------------------------

class World:
    def __init__(self, scratch, env, emit=None):
        self.scratch = scratch
        self.env = env or {}
        self.emit = emit                 # callable(results, crashed_at) used on a simulated crash
        self.files = {}
        self.objs = {}                   # handle -> live object (files, logical files, items)
        self.buffers = []                # caller-owned numpy base buffers, in creation order
        self.buffer_labels = []
        self.h5_files = []
        self.results = []
        self.real_open = builtins.open
        self.capturing = False
        self.events = []
        self.snaps = []
        self.ev = 0
        self.faults = []
        self.fault_trace = []
        self.reported_size = None
        self.warn_count = 0
        self.warns = []
        self.lr_tap = None
        self.seams = {}
        self.line_budget = None
        self.lines_seen = 0
        self.codec = values.Codec(self.objs, registry=self.buffers)
        self.step_no = 0

    # ---------------------------------------------------------------- seams
    def install(self):
        tz = self.env.get('tz')
        if tz:
            os.environ['TZ'] = tz
            time.tzset()
        w = self

        def sim_open(file, mode='r', *a, **k):
            try:
                p = os.fspath(file) if not isinstance(file, int) else None
            except TypeError:
                p = None
            if (w.capturing and isinstance(p, str) and any(c in mode for c in 'wax+')
                    and os.path.abspath(p).startswith(w.scratch + os.sep)):
                return SimFile(w, os.path.abspath(p), mode, (file, mode) + a, k)
            return w.real_open(file, mode, *a, **k)

        builtins.open = sim_open
        io.open = sim_open
        # RNG and clock defaults: one fixed state per fresh process; ops re-seed / re-set explicitly
        np.random.seed(int(self.env.get('rng_seed', 0)))
        FakeDatetime._now = _dt.datetime.fromisoformat(self.env.get('epoch', '2021-03-04T05:06:07.089000'))
        self.seams['rng'] = True
        # logging: total size + warnings
        lg = logging.getLogger('dliswriter')
        lg.setLevel(logging.INFO)
        lg.propagate = False
        lg.handlers[:] = [_LogTap(self)]
        self.seams['total_size'] = True
        # clock (soft seam)
        try:
            import dliswriter.logical_record.eflr_types.origin as om
            if getattr(om, 'datetime', None) is _dt.datetime:
                om.datetime = FakeDatetime
                self.seams['clock'] = True
            else:
                self.seams['clock'] = False
        except Exception:
            self.seams['clock'] = False
        # ... and in every other module of the library that refers to the datetime class: nothing there may read the REAL clock
        # (e.g. to learn the local zone's current offset), or a run would depend on the day it is made
        for name, mod in list(sys.modules.items()):
            if name.startswith('dliswriter') and mod is not None and getattr(mod, 'datetime', None) is _dt.datetime:
                try:
                    mod.datetime = FakeDatetime
                except Exception:
                    pass
        # lr-tap (soft seam, class-level wrapper)
        self.seams['lr_tap'] = False
        if self.env.get('lr_tap'):
            try:
                from dliswriter.logical_record.core.logical_record.logical_record_bytes import LogicalRecordBytes as L
                orig = L.make_segments

                def tapped(lrb, *a, **k):
                    if w.lr_tap is not None:
                        try:
                            t = lrb._lr_type_struct
                            w.lr_tap.append((bool(lrb._is_eflr), t[0] if t else -1, bytes(lrb.bts)))
                        except Exception:
                            w.seams['lr_tap'] = False
                    return orig(lrb, *a, **k)
                L.make_segments = tapped
                self.seams['lr_tap'] = True
            except Exception:
                pass

    # ---------------------------------------------------------------- I/O events and faults
    def _fault_for(self, kind):
        for f in self.faults:
            if f.get('at_event') == self.ev and not f.get('_fired'):
                fk = f['kind']
                if fk == 'crash' or fk == kind + '_fail' or (fk == 'short_write' and kind == 'write'):
                    return f
        return None

    def _snap(self, path):
        try:
            with self.real_open(path, 'rb') as f:
                return f.read()
        except FileNotFoundError:
            return None

    def io_event(self, kind, sf, data, implicit=False):
        """Called before the real effect of open/write/close. Returns bytes written for writes."""
        f = self._fault_for(kind)
        idx = self.ev
        if kind == 'open':
            if f and f['kind'] == 'open_fail':
                f['_fired'] = True
                self.ev += 1
                en = f.get('errno', errno.ENOSPC)
                self._record(idx, 'open', sf, 0, 0, 'OSError(%d)' % en, f)
                raise OSError(en, os.strerror(en), sf._path)
            return 0     # io_done records the event after the real open
        if kind == 'write':
            n = len(data)
            if f and f['kind'] == 'write_fail':
                f['_fired'] = True
                part = min(max(int(f.get('partial', 0)), 0), n)
                if part:
                    sf._raw_write(memoryview(data)[:part])
                self.ev += 1
                en = f.get('errno', errno.ENOSPC)
                self._record(idx, 'write', sf, n, part, 'OSError(%d)' % en, f)
                raise OSError(en, os.strerror(en))
            if f and f['kind'] == 'short_write' and getattr(sf, '_raw_asked', False):
                # a raw file taking only part of the bytes (transfer limit, quota or file-size limit reached, signal): no error,
                # the count is the return value.  (Asked of a buffered file the plan does not fire: that layer retries.)
                f['_fired'] = True
                part = min(max(int(f.get('partial', 0)), 1), max(n - 1, 0))
                if part:
                    sf._raw_write(memoryview(data)[:part])
                self.ev += 1
                self._record(idx, 'write', sf, n, part, None, None)
                self.events[-1]['short'] = True
                self.fault_trace.append({'event': idx, 'call': 'write', 'len': n, 'written': part, 'raised': None, 'short_write': True})
                return part
            if f and f['kind'] == 'crash' and f.get('partial') is not None:
                f['_fired'] = True
                part = min(max(int(f['partial']), 0), n)
                if part:
                    sf._raw_write(memoryview(data)[:part])
                self.ev += 1
                self._record(idx, 'write', sf, n, part, 'CRASH', f)
                raise _Crash()
            sf._raw_write(data)
            self.ev += 1
            self._record(idx, 'write', sf, n, n, None, None)
            if f and f['kind'] == 'crash':
                f['_fired'] = True
                self.fault_trace.append({'event': idx, 'call': 'write', 'raised': 'CRASH(after)'})
                raise _Crash()
            return n
        if kind == 'close':
            if f and f['kind'] == 'close_fail':
                f['_fired'] = True
                lose = int(f.get('lose', 0))
                if lose:
                    try:
                        sz = os.path.getsize(sf._path)
                        os.truncate(sf._path, max(sz - lose, 0))
                    except OSError:
                        pass
                self.ev += 1
                en = f.get('errno', errno.EIO)
                self._record(idx, 'close', sf, 0, 0, 'OSError(%d)%s' % (en, ' ignored in finaliser' if implicit else ''), f)
                raise OSError(en, os.strerror(en))
            self.ev += 1
            self._record(idx, 'close', sf, 0, 0, None, None)
            if implicit:
                self.events[-1]['implicit'] = True
                return 0
            if f and f['kind'] == 'crash':
                f['_fired'] = True
                self.fault_trace.append({'event': idx, 'call': 'close', 'raised': 'CRASH(after)'})
                raise _Crash()
            return 0

    def io_done(self, kind, sf, n, written):
        idx = self.ev
        f = self._fault_for('none')
        self.ev += 1
        self._record(idx, kind, sf, n, written, None, None)
        if f and f['kind'] == 'crash' and f.get('partial') is None:
            f['_fired'] = True
            self.fault_trace.append({'event': idx, 'call': kind, 'raised': 'CRASH(after)'})
            raise _Crash()

    def _record(self, idx, kind, sf, n, written, raised, fault):
        snap = self._snap(sf._path)
        self.snaps.append(snap)
        ev = {'i': idx, 'k': kind, 'mode': sf._mode, 'n': n, 'w': written, 'path': os.path.basename(sf._path),
              'size': None if snap is None else len(snap), 'sha': None if snap is None else sha(snap)}
        if raised:
            ev['raised'] = raised
            self.fault_trace.append({'event': idx, 'call': kind, 'len': n, 'written': written, 'raised': raised})
        self.events.append(ev)

    # ---------------------------------------------------------------- interrupts (F7)
    def _tracer_for(self, fault):
        target = int(fault['at_line'])
        w = self
        w.lines_seen = 0
        state = {'fired': False}
        skip = ('high_compatibility_mode.py',)

        def local(frame, event, arg):
            if event == 'line' and not state['fired']:
                w.lines_seen += 1
                if w.lines_seen == target:
                    state['fired'] = True
                    fault['_fired'] = True
                    sys.settrace(None)
                    w.fault_trace.append({'call': 'line', 'at_line': target,
                                          'where': '%s:%d' % (os.path.basename(frame.f_code.co_filename), frame.f_lineno),
                                          'raised': 'KeyboardInterrupt'})
                    raise KeyboardInterrupt('simulated interrupt')
            return local

        def glob(frame, event, arg):
            if state['fired']:
                return None
            fn = frame.f_code.co_filename
            if '/dliswriter/' in fn and not fn.endswith(skip):
                return local
            return None
        return glob

    def _count_tracer(self):
        w = self
        w.lines_seen = 0

        def local(frame, event, arg):
            if event == 'line':
                w.lines_seen += 1
            return local

        def glob(frame, event, arg):
            fn = frame.f_code.co_filename
            if '/dliswriter/' in fn and not fn.endswith('high_compatibility_mode.py'):
                return local
            return None
        return glob

    # ---------------------------------------------------------------- invariants
    def hc_flag(self):
        try:
            from dliswriter.configuration import global_config
            return global_config.high_compat_mode
        except Exception:
            return None

    def inventory(self, only=None):
        out = {}
        for h, lf in self.objs.items():
            if h.startswith('lf:') and (only is None or h == 'lf:' + only):
                try:
                    out[h[3:]] = [[(getattr(o, 'name', None), getattr(o, 'copy_number', None)) for o in getattr(lf, k)]
                                  for k in ('channels', 'frames', 'origins')]
                except Exception as e:    # pragma: no cover
                    out[h[3:]] = 'error:' + type(e).__name__
        return out

    def buffer_sums(self):
        sums = []
        for b in self.buffers:
            try:
                sums.append(sha(np.ascontiguousarray(b).view(np.uint8).tobytes()))
            except Exception as e:
                sums.append('error:' + type(e).__name__)
        for p in self.h5_files:
            try:
                with self.real_open(p, 'rb') as f:
                    sums.append(sha(f.read()))
            except OSError as e:
                sums.append('error:' + type(e).__name__)
        return sums

    # ---------------------------------------------------------------- executor
    def run(self, history):
        for op in history:
            if op.get('op') == 'restart':
                continue
            self.results.append(self.step(op))
        return self.results

    def step(self, op):
        r = {'op': op['op']}
        if 'id' in op:
            r['id'] = op['id']
        self.ev = 0
        self.faults = [dict(f) for f in op.get('faults', [])]
        self.fault_trace = []
        self.warn_count = 0
        self.warns = []
        missing = [h for h in self._handles_needed(op) if h not in self.objs]
        if missing:
            r['out'] = 'skip'
            r['missing'] = missing
            r['hc'] = self.hc_flag()
            return r
        intr = [f for f in self.faults if f['kind'] == 'interrupt']
        count_lines = op.get('count_lines')
        try:
            fn = getattr(self, 'op_' + op['op'])
        except AttributeError:
            raise HarnessError('unknown op %r' % op['op'])
        try:
            if intr:
                sys.settrace(self._tracer_for(intr[0]))
            elif count_lines:
                sys.settrace(self._count_tracer())
            try:
                fn(op, r)
            finally:
                sys.settrace(None)
            r['out'] = 'ok'
        except _Crash:
            r['out'] = 'crash'
            r['io'] = self.events
            r['fault_trace'] = self.fault_trace
            self.capturing = False
            self.results.append(r)
            if self.emit:
                self.emit(self.results, True)
            os._exit(CRASH_EXIT)
        except HarnessError:
            raise
        except BaseException as e:
            tb = traceback.extract_tb(e.__traceback__)
            r['out'] = 'exc'
            r['exc'] = type(e).__name__
            r['msg'] = _ADDR.sub('0x?', str(e).replace(self.scratch, '<scratch>'))[:160]
            inner = tb[-1].filename if tb else ''
            # an exception whose innermost frame is harness code (and is not a simulated fault) is a harness problem
            if inner.startswith(HARNESS) and not isinstance(e, (OSError, KeyboardInterrupt, _Propagated)):
                r['harness_tb'] = ''.join(traceback.format_exception(type(e), e, e.__traceback__))[-1500:]
            r['where'] = '%s:%d' % (os.path.basename(inner), tb[-1].lineno) if tb else ''
            if os.environ.get('VERIF_TB'):
                r['tb'] = ['%s:%d %s' % (os.path.basename(f.filename), f.lineno, f.name) for f in tb][-8:]
            if isinstance(e, _Propagated):
                r['exc'] = e.inner_name
                r['propagated'] = True
        if count_lines or intr:
            r['lines'] = self.lines_seen
        r['hc'] = self.hc_flag()
        if self.fault_trace:
            r['fault_trace'] = self.fault_trace
        r['faults_fired'] = [f['kind'] for f in self.faults if f.get('_fired')]
        if self.warn_count:
            r['warn'] = self.warn_count
            r['warns'] = self.warns
        if op['op'] in ('add', 'nf_data'):
            # public read properties of the logical file the op targeted (only that one: observation must not couple clients)
            r['inv'] = self.inventory(op.get('lf'))
        return r

    def _handles_needed(self, op):
        need = []
        for k in ('fid', 'lf', 'h_target'):
            pass
        o = op['op']
        if o in ('add_lf', 'write', 'set_sul'):
            need.append('file:' + op['fid'])
        if o in ('add', 'nf_data', 'read_props', 'set_fh'):
            need.append('lf:' + op['lf'])
        if o in ('set', 'set_prop', 'get', 'set_attrs', 'item_id'):
            need.append(op['h'])
        need.extend(values.refs_in(op.get('kwargs')))
        need.extend(values.refs_in(op.get('v')))
        need.extend(values.refs_in(op.get('nf')))
        return need

    # ---- ops
    def op_new_file(self, op, r):
        import dliswriter
        kw = self.codec.dec(op.get('kwargs', {}))
        if op.get('sul'):
            kw = {'storage_unit_label': dliswriter.StorageUnitLabel(**self.codec.dec(op['sul']))}
        f = dliswriter.DLISFile(**kw)
        self.objs['file:' + op['fid']] = f

    def op_add_lf(self, op, r):
        f = self.objs['file:' + op['fid']]
        lf = f.add_logical_file(**self.codec.dec(op.get('kwargs', {})))
        self.objs['lf:' + op['lf']] = lf

    def op_add(self, op, r):
        lf = self.objs['lf:' + op['lf']]
        kw = self.codec.dec(op.get('kwargs', {}))
        kind = op['kind']
        if kind == 'origin':
            # simulated clock and RNG values belong to the op (derived from its handle when not given), so that removing or
            # reordering other ops never changes them
            import zlib
            hh = zlib.crc32(str(op.get('h')).encode())
            if op.get('now'):
                FakeDatetime._now = _dt.datetime.fromisoformat(op['now'])
            elif op.get('clock_keep'):
                pass
            else:
                FakeDatetime._now = _dt.datetime(2021, 3, 4, 5, 6, 7, 89000) + _dt.timedelta(seconds=hh % 10 ** 7, microseconds=hh % 999983)
            if not op.get('rng_keep'):
                np.random.seed(op['rng_seed'] if op.get('rng_seed') is not None else hh)
            reads0 = FakeDatetime._reads
        meth = getattr(lf, 'add_' + kind)
        if 'name' in op:
            obj = meth(sys.intern(op['name']) if isinstance(op['name'], str) else op['name'], **kw)   # (a literal in the caller's code)
        else:
            obj = meth(**kw)
        if kind == 'origin':
            r['clock_reads'] = FakeDatetime._reads - reads0
        self.objs[op['h']] = obj

    def op_nf_data(self, op, r):
        lf = self.objs['lf:' + op['lf']]
        rec = lf.add_no_format_frame_data(self.codec.dec(op['nf']), self.codec.dec(op['data']))
        if op.get('h'):
            self.objs[op['h']] = rec

    def op_set(self, op, r):
        obj = self.objs[op['h']]
        attr = getattr(obj, op['attr'])
        setattr(attr, op.get('part', 'value'), self.codec.dec(op['v']))

    def op_read_props(self, op, r):
        """A pure read of the public properties of a logical file (must not influence later files)."""
        lf = self.objs['lf:' + op['lf']]
        r['read'] = [len(lf.channels), len(lf.frames), len(lf.origins), lf.defining_origin is not None]

    def op_set_prop(self, op, r):
        obj = self.objs[op['h']]
        setattr(obj, op['prop'], self.codec.dec(op['v']))

    # ---- the environment of the process, changed in mid-history (kept by every projection)
    def op_set_tz(self, op, r):
        os.environ['TZ'] = op['tz']
        time.tzset()

    def op_seed_rng(self, op, r):
        """The caller seeds numpy's global random state; add ops marked 'rng_keep' then draw from it in call order."""
        np.random.seed(int(op['seed']))

    def op_set_clock(self, op, r):
        FakeDatetime._now = _dt.datetime.fromisoformat(op['now'])

    def op_set_log(self, op, r):
        """Logging configuration chosen by the application: library logger at ERROR, everything disabled, or the default."""
        lg = logging.getLogger('dliswriter')
        mode = op.get('mode', 'default')
        logging.disable(logging.CRITICAL if mode == 'disabled' else logging.NOTSET)
        lg.setLevel(logging.ERROR if mode == 'error' else logging.INFO)

    def op_set_fh(self, op, r):
        """Change a public attribute of a logical file's header item (sequence number / id of the next file of a set)."""
        setattr(self.objs['lf:' + op['lf']].file_header, op['prop'], self.codec.dec(op['v']))

    def op_set_sul(self, op, r):
        """Change a public attribute of the file's storage unit label (e.g. the sequence number of the next unit of a set)."""
        f = self.objs['file:' + op['fid']]
        setattr(f.storage_unit_label, op['prop'], self.codec.dec(op['v']))

    def op_set_attrs(self, op, r):
        obj = self.objs[op['h']]
        obj.set_attributes(**self.codec.dec(op['kwargs']))

    def op_encode(self, op, r):
        from dliswriter.utils.internal.struct_writer import write_struct
        from dliswriter import RepresentationCode
        v = self.codec.dec(op['v'])
        out = write_struct(RepresentationCode[op['code']], v)
        r['bytes'] = bytes(out).hex()
        # the caller keeps what it was given (a list of encoded values joined later): results of EARLIER encodes still hold their bytes
        kept = self.__dict__.setdefault('_enc_kept', [])
        changed = [i for i, (o, h) in enumerate(kept) if bytes(o).hex() != h]
        if changed:
            r['earlier_changed'] = len(changed)
        kept.append((out, r['bytes']))

    def op_item_id(self, op, r):
        """The bytes emitted for an object's identity: as the object's own component, as an OBNAME and as an OBJREF value."""
        from dliswriter.utils.internal.struct_writer import write_struct
        from dliswriter import RepresentationCode
        item = self.objs[op['h']]
        r['own'] = bytes(item.obname).hex()
        r['obname'] = bytes(write_struct(RepresentationCode.OBNAME, item)).hex()
        r['objref'] = bytes(write_struct(RepresentationCode.OBJREF, item)).hex()
        r['props'] = [item.origin_reference, item.copy_number, item.name]

    def op_cache_info(self, op, r):
        from dliswriter.utils.internal.struct_writer import write_struct
        ci = write_struct.cache_info()
        r['cache'] = [ci.hits, ci.misses, ci.currsize]

    def op_hc_block(self, op, r):
        from dliswriter import high_compatibility_mode, high_compatibility_mode_decorator
        body = op.get('body', [])
        r['body'] = []
        r['hc_inside'] = None

        def run_body():
            r['hc_inside'] = self.hc_flag()
            for bop in body:
                br = self.step(bop)
                r['body'].append(br)
                if br['out'] == 'exc' and bop.get('propagate'):
                    p = _Propagated(br.get('exc'))
                    raise p
        if op.get('form') == 'decorator':
            high_compatibility_mode_decorator(run_body)()
        else:
            with high_compatibility_mode():
                run_body()

    def op_flood(self, op, r):
        """Cache pressure through the public API only: a noise file whose parameter holds n distinct values."""
        import dliswriter
        n = int(op.get('n', 70000))
        base = float(op.get('base', 1e6))
        f = dliswriter.DLISFile(max_record_length=16384)
        lf = f.add_logical_file()
        lf.add_origin('N', file_set_number=1, creation_time=_dt.datetime(2000, 1, 1))
        z = [lf.add_zone('Z%d' % i) for i in range(2)]
        vals = [base + i * 0.5 for i in range(n)]
        half = n // 2
        lf.add_parameter('P', values=[vals[:half], vals[half:2 * half]], zones=z)
        c = lf.add_channel('X', data=np.arange(2, dtype=np.float64))
        lf.add_frame('F', channels=[c])
        path = os.path.join(self.scratch, op.get('path', 'flood.dlis'))
        f.write(path, output_chunk_size=2 ** 20)
        os.unlink(path)

    def _make_data(self, d, r):
        if d is None:
            return None
        if d.get('share'):
            # the caller hands the SAME data object (dict, structured array) to several writes
            key = 'data:' + str(d['share'])
            if key not in self.codec.shared:
                self.codec.shared[key] = self._make_data({kk: vv for kk, vv in d.items() if kk != 'share'}, r)
            return self.codec.shared[key]
        k = d['kind']
        if k == 'dict':
            return {name: values.make_array(rc, self.buffers) for name, rc in d['arrays']}
        if k == 'struct':
            cols = [(name, values.make_array(rc)) for name, rc in d['fields']]
            dt = []
            for name, a in cols:
                dt.append((name, a.dtype) if a.ndim == 1 else (name, a.dtype, a.shape[1:]))
            n = cols[0][1].shape[0]
            if d.get('layout') == 'view':
                big = np.zeros(n + 6, dtype=np.dtype(dt))
                big.view(np.uint8)[:] = 0x5a
                arr = big[3:3 + n]
                self.buffers.append(big)
            else:
                arr = np.zeros(n, dtype=np.dtype(dt))
                self.buffers.append(arr)
            for name, a in cols:
                arr[name] = a[:n]
            if d.get('layout') == 'readonly':
                arr.flags.writeable = False
            return arr
        if k == 'h5':
            import h5py
            p = os.path.join(self.scratch, d['file'])
            if not os.path.exists(p):
                with h5py.File(p, 'w') as hf:
                    for name, rc in d['datasets']:
                        arr = values.make_array(rc)
                        kw = {}
                        if d.get('h5_chunks') and arr.ndim and arr.shape[0]:
                            # chunked storage layout (what compression / resizable data sets imply): k rows per storage chunk
                            k_rows = int(d['h5_chunks']) if arr.shape[0] < 1000 else 512 * int(d['h5_chunks'])   # (long data sets: larger storage chunks)
                            kw['chunks'] = (max(1, min(k_rows, arr.shape[0])),) + tuple(arr.shape[1:])
                            if d.get('h5_compress'):
                                kw['compression'] = 'gzip'
                        hf.create_dataset(name, data=arr, **kw)
                if d.get('truncate'):
                    os.truncate(p, max(os.path.getsize(p) - int(d['truncate']), 0))
                self.h5_files.append(p)
            return p if d.get('path_kind') != 'Path' else __import__('pathlib').Path(p)
        if k == 'bad':
            return self.codec.dec(d['v'])
        raise HarnessError('unknown data kind %r' % k)

    def _install_h5_fault(self, fault):
        import h5py
        w = self
        real = h5py.File
        state = {'reads': 0}

        class DS:
            def __init__(self, d):
                self._d = d

            def __getitem__(self, idx):
                state['reads'] += 1
                if state['reads'] == fault['at_read'] and not fault.get('_fired'):
                    fault['_fired'] = True
                    w.fault_trace.append({'call': 'h5_read', 'at_read': fault['at_read'], 'raised': 'OSError(5)'})
                    raise OSError(errno.EIO, 'simulated HDF5 read error')
                return self._d[idx]

            def __getattr__(self, k):
                return getattr(self._d, k)

        class F:
            def __init__(self, *a, **k):
                self._f = real(*a, **k)

            def __getitem__(self, name):
                return DS(self._f[name])

            def close(self):
                return self._f.close()

            def __getattr__(self, k):
                return getattr(self._f, k)

        import dliswriter.utils.source_data_wrappers as sdw
        if getattr(sdw, 'h5py', None) is not h5py:
            self.seams['h5py'] = False
            return lambda: None
        self.seams['h5py'] = True

        class Mod:
            File = F

            def __getattr__(self, k):
                return getattr(h5py, k)
        sdw.h5py = Mod()

        def undo():
            sdw.h5py = h5py
        return undo

    def op_concurrent_writes(self, op, r):
        """Two caller threads, each writing its own DLISFile to its own path, interleaved by a seeded scheduler.

        Real threads, but only one runs at a time: a thread hands the baton to the other one at seeded LINE EVENTS inside library
        code (sys.settrace), so the interleaving is a function of op['switch'] (a list of line counts) alone.
        """
        import threading
        parts = op['parts']                       # [{'fid':..., 'path':..., 'output_chunk_size':..., ...}, {...}]
        switch = list(op.get('switch') or [200])
        sems = [threading.Semaphore(0), threading.Semaphore(0)]
        state = {'left': switch[0], 'k': 0, 'done': [False, False], 'turn': 0}
        results = [None, None]
        w = self

        def handoff(me):
            other = 1 - me
            if state['done'][other]:
                return
            state['turn'] = other
            sems[other].release()
            sems[me].acquire()

        def make_tracer(me):
            def local(frame, event, arg):
                if event == 'line':
                    state['left'] -= 1
                    if state['left'] <= 0:
                        state['k'] += 1
                        state['left'] = switch[state['k'] % len(switch)]
                        handoff(me)
                return local

            def tracer(frame, event, arg):
                fn = frame.f_code.co_filename
                if 'dliswriter' in fn and not fn.startswith(HARNESS):
                    return local
                return None
            return tracer

        def run(me):
            sems[me].acquire()
            sys.settrace(make_tracer(me))
            try:
                p = parts[me]
                f = w.objs['file:' + p['fid']]
                path = os.path.join(w.scratch, p['path'])
                kw = {k: w.codec.dec(p[k]) for k in ('input_chunk_size', 'output_chunk_size', 'from_idx', 'to_idx') if k in p}
                kw.setdefault('output_chunk_size', 1 << 20)
                try:
                    f.write(path, **kw)
                    results[me] = {'out': 'ok'}
                except BaseException as e:      # noqa
                    results[me] = {'out': 'exc', 'exc': type(e).__name__, 'msg': str(e).replace(w.scratch, '<scratch>')[:160]}
            finally:
                sys.settrace(None)
                state['done'][me] = True
                sems[1 - me].release()

        ts = [threading.Thread(target=run, args=(i,), name='sim-caller-%d' % i) for i in (0, 1)]
        for t in ts:
            t.start()
        sems[0].release()
        for t in ts:
            t.join(60)
        if any(t.is_alive() for t in ts):
            raise HarnessError('concurrent_writes: a caller thread did not finish')
        r['parts'] = []
        for i, p in enumerate(parts):
            res = dict(results[i] or {'out': 'none'})
            res['file'] = self._snap(os.path.join(self.scratch, p['path']))
            r['parts'].append(res)
        r['switches'] = state['k']

    def op_write(self, op, r):
        f = self.objs['file:' + op['fid']]
        path = os.path.join(self.scratch, op['path'])
        prior = op.get('prior')
        if prior is not None:
            if prior.get('kind') == 'keep':
                pass
            else:
                with self.real_open(path, 'wb') as pf:
                    if prior.get('hex'):
                        pf.write(bytes.fromhex(prior['hex']))
                    elif prior.get('n'):
                        import random
                        pf.write(random.Random(prior.get('seed', 0)).randbytes(prior['n']))
        elif os.path.exists(path) and not op.get('keep_existing'):
            os.unlink(path)
        r['prior_size'] = os.path.getsize(path) if os.path.exists(path) else None
        kw = {}
        for k in ('input_chunk_size', 'output_chunk_size', 'from_idx', 'to_idx'):
            if k in op:
                kw[k] = self.codec.dec(op[k])
        if 'output_chunk_size' not in kw and not op.get('default_ocs'):
            kw['output_chunk_size'] = 1 << 20
        nbuf0 = len(self.buffers)
        data = self._make_data(op.get('data'), r)
        if data is not None or 'data' in op:
            kw['data'] = data
        dict_sig0 = None
        if isinstance(data, dict):
            dict_sig0 = [(k, id(v)) for k, v in data.items()]
        sums0 = self.buffer_sums()
        undo = None
        for ft in self.faults:
            if ft['kind'] == 'h5_read':
                undo = self._install_h5_fault(ft)
        target = path if op.get('path_kind') != 'Path' else __import__('pathlib').Path(path)
        if op.get('path_kind') in ('relative', 'relative_Path'):
            # the target named relative to the current working directory
            os.chdir(os.path.dirname(path))
            target = os.path.basename(path)
            if op['path_kind'] == 'relative_Path':
                target = __import__('pathlib').Path(target)
        self.events, self.snaps = [], []
        self.reported_size = None
        if self.seams.get('lr_tap'):
            self.lr_tap = []
        self.capturing = True
        try:
            f.write(target, **kw)
        finally:
            self.capturing = False
            if undo:
                undo()
            final = self._snap(path)
            r['file'] = final
            r['io'] = self.events
            for ev, sn in zip(self.events, self.snaps):
                if sn is None or final is None:
                    ev['prefix'] = None
                else:
                    ev['prefix'] = final[:len(sn)] == sn
                    if not ev['prefix']:
                        ev['snap'] = sn[:2048]
            r['reported'] = self.reported_size
            sums1 = self.buffer_sums()
            chg = [i for i, (a, b) in enumerate(zip(sums0, sums1)) if a != b]
            if chg or len(sums0) != len(sums1):
                r['buf_changed'] = chg
            r['n_buffers'] = len(sums1)
            if dict_sig0 is not None:
                r['dict_same'] = dict_sig0 == [(k, id(v)) for k, v in data.items()]
            if self.lr_tap is not None:
                r['lr_tap'] = self.lr_tap
                self.lr_tap = None
            self.snaps = []


class _Propagated(BaseException):
    def __init__(self, inner_name):
        BaseException.__init__(self, inner_name)
        self.inner_name = inner_name
