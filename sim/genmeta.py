"""Generator of metadata objects (all object types, all attributes, four assignment routes) on top of gen.Spec."""
from . import schema, gen

WORDS = ['alpha', 'Beta 2', 'GAMMA-RAY', 'depth (m)', 'x', '', 'Tool_7', 'some longer descriptive text, with punctuation!', 'N/A',
         'run #3', '12 inch', 'Sonde']
HC_IDENTS = ['A1', 'TOOL-7', 'X_Y', 'GR', 'AXIS-1', 'SN-0042', 'LBL', 'T2']
IDENTS = ['A1', 'tool-7', 'x.y', 'GR', 'Axis 1', 'SN-0042', 'lbl', 'T2', 'Mixed Case-Id']
STRS = ['Near', 'Far', 'Mid', 'left', 'RIGHT']


def text(rng, avoid=()):
    r = rng.random()
    if r < 0.8:
        return gen.pick(rng, WORDS)
    if r < 0.93:
        return ''.join(chr(32 + rng.randrange(95)) for _ in range(rng.choice([1, 127, 128, 130, 300])))
    return ''.join(chr(33 + rng.randrange(90)) for _ in range(rng.choice([16383, 16384, 17000])))


def ident(rng, hc=False):
    s = gen.pick(rng, HC_IDENTS if hc else IDENTS)
    if rng.random() < 0.08 and 'long_ident' not in gen.AVOID:
        s = (s.replace(' ', '_') * 40)[:rng.choice([127, 128, 200, 255])]
    elif rng.random() < 0.05:
        s = (s.replace(' ', '_') * 40)[:rng.choice([100, 127])]
    return s


def number(rng, code=None, integer=False):
    if code == '18':
        v = gen.pick(rng, [0, 1, 127, 128, 129, 16383, 16384, 2 ** 30 - 1, rng.randint(0, 2 ** 30 - 1)])
        return float(v) if rng.random() < 0.1 else v
    if code == '16':
        v = gen.pick(rng, [0, 1, 255, 256, 65535, rng.randint(0, 65535)])
        return float(v) if rng.random() < 0.1 else v
    if integer:
        return gen.pick(rng, [0, 1, -1, 7, 2 ** 31 - 1, -2 ** 31, rng.randint(-10 ** 6, 10 ** 6)])
    r = rng.random()
    if r < 0.25:
        return gen.pick(rng, [0, 1, -1, 12, 100, rng.randint(-10 ** 6, 10 ** 6)])
    if r < 0.32:
        nz = [] if 'neg_zero' in gen.AVOID else [-0.0, 0.0]
        return gen.pick(rng, nz + [1.0, float('inf'), float('-inf'), float('nan'), 1e308, 5e-324, 1e-300])
    return gen.pick(rng, [0.5, -12.125, 3.14159, 1234.5678, 999.51, 40.39524, rng.random() * 1000, -rng.random()])


SAFE_MONTHS = [1, 2, 6, 7, 8, 12]


def dtime(rng, allow_str=True):
    y = gen.pick(rng, [1971, 1987, 2003, 2020, 2024, 2037, rng.randint(1971, 2037)])
    mo, d = gen.pick(rng, SAFE_MONTHS), rng.randint(5, 25)
    h, mi, s = rng.randint(0, 23), rng.randint(0, 59), rng.randint(0, 59)
    us = gen.pick(rng, [0, 0, 500, 999499, 999500, 999999, 123456, rng.randint(0, 999999)])
    r = rng.random()
    if allow_str and r < 0.25:
        fmt = '%04d/%02d/%02d %02d:%02d:%02d' if rng.random() < 0.5 else '%04d.%02d.%02d %02d:%02d:%02d'
        return fmt % (y, mo, d, h, mi, s)
    iso = '%04d-%02d-%02dT%02d:%02d:%02d.%06d' % (y, mo, d, h, mi, s, us)
    if r < 0.6:
        return {'$dt': iso, 'tz': None}
    if r < 0.8:
        y2 = gen.pick(rng, [1900, 1950, 2100, 2155, y])
        iso = '%04d' % y2 + iso[4:]
        return {'$dt': iso, 'tz': gen.pick(rng, [0, 60, -300, 330, 345, 765, -720])}
    return {'$dt': iso, 'tz': gen.pick(rng, ['UTC', 'Asia/Kolkata', 'America/New_York', 'Europe/Oslo', 'Pacific/Auckland'])}


def enum_value(rng, name, soft=False, hc=False):
    members = schema.ENUMS[name]
    k = gen.pick(rng, sorted(members))
    r = rng.random()
    if soft and not hc and r < 0.2:
        return gen.pick(rng, ['custom-value', 'MY UNIT', 'x1'])
    if r < 0.55:
        return members[k]
    return {'$enum': [name, k]}


def unit(rng, hc=False):
    return enum_value(rng, 'Unit', soft=True, hc=hc)


class Meta:
    """Adds metadata objects to a gen.Spec logical file, tracking handles by kind for references."""

    def __init__(self, spec, lfi, rng, hc=False, routes=True, set_name=None, units=True):
        self.spec, self.lfi, self.rng, self.hc = spec, lfi, rng, hc
        self.by_kind = {}
        self.routes = routes
        self.set_name = set_name
        self.units = units
        self.later = []           # set ops to emit after creation
        self.names = {}
        for c in lfi['channels']:
            self.by_kind.setdefault('channel', []).append(c['h'])
        for f in lfi['frames']:
            self.by_kind.setdefault('frame', []).append(f['h'])
        for n in lfi['nofmt']:
            self.by_kind.setdefault('no_format', []).append(n['h'])

    def some(self, kind, lo=1, hi=3):
        pool = self.by_kind.get(kind) or []
        if kind == 'any':
            pool = [h for k in sorted(self.by_kind) for h in self.by_kind[k] if k != 'origin']
        if not pool:
            return None
        n = min(self.rng.randint(lo, hi), len(pool))
        if self.rng.random() < 0.3:
            return [{'$ref': gen.pick(self.rng, pool)} for _ in range(n)]     # shared / repeated targets
        return [{'$ref': h} for h in self.rng.sample(pool, n)]

    def value(self, t, n=None):
        """A literal for value kind t (None if it cannot be produced, e.g. no reference target yet)."""
        rng = self.rng
        base, _, arg = t.partition(':')
        if base == 'text':
            return text(rng)
        if base == 'texts':
            return [text(rng) for _ in range(n or rng.choice([1, 2, 3]))] if rng.random() < 0.85 else text(rng)
        if base == 'ident':
            return ident(rng, self.hc)
        if base == 'idents':
            return [ident(rng, self.hc) for _ in range(n or rng.choice([1, 2]))]
        if base == 'num':
            return number(rng, arg or None)
        if base == 'int':
            return number(rng, integer=True)
        if base in ('nums', 'numsN'):
            k = n or rng.choice([1, 2, 3, 5, 130] if rng.random() < 0.1 else [1, 2, 3])
            ints = rng.random() < 0.3
            return [number(rng, arg or None, integer=ints) for _ in range(k)]
        if base == 'dtime':
            return dtime(rng)
        if base == 'dtime_or_num':
            return dtime(rng) if rng.random() < 0.5 else number(rng)
        if base == 'status':
            return gen.pick(rng, [0, 1, True, False, 1.0])
        if base == 'flag':
            return gen.pick(rng, [0, 1, True, False])
        if base == 'ref':
            r = self.some(arg, 1, 1)
            return r[0] if r else None
        if base == 'refs':
            return self.some(arg, 1, n or 3) if n is None else self._exact(arg, n)
        if base == 'objref':
            r = self.some('any', 1, 1)
            return r[0] if r else None
        if base == 'objrefs':
            return self.some('any', 1, 4)
        if base == 'ref_or_text':
            r = self.some(arg, 1, 1)
            return r[0] if r and rng.random() < 0.5 else text(rng)
        if base == 'dim':
            return [rng.randint(1, 5)]
        if base == 'enum':
            return enum_value(rng, arg)
        if base == 'enum_soft':
            return enum_value(rng, arg, soft=True, hc=self.hc)
        if base == 'enums':
            return [enum_value(rng, arg) for _ in range(rng.choice([1, 2, 3]))]
        if base == 'unit_ident':
            return unit(rng, self.hc)
        if base in ('maybe_nums', 'maybe_numsN'):
            k = n or rng.choice([1, 2, 3])
            if rng.random() < 0.3:
                return [gen.pick(rng, STRS) for _ in range(k)]
            ints = rng.random() < 0.4
            return [number(rng, integer=ints) for _ in range(k)]
        raise ValueError(t)

    def _exact(self, kind, n):
        pool = self.by_kind.get(kind) or []
        if not pool:
            return None
        return [{'$ref': gen.pick(self.rng, pool)} for _ in range(n)]

    def route(self, kw, v, t):
        """Wrap a literal in one of the four assignment routes; may attach units."""
        rng = self.rng
        u = unit(rng, self.hc) if (self.units and schema.units_allowed(t) and rng.random() < 0.3) else None
        if not self.routes:
            return v, None
        r = rng.random()
        if u is not None and 'units_enum_setup' in gen.AVOID and isinstance(u, dict):
            u = schema.ENUMS['Unit'][u['$enum'][1]]
        if r < 0.55 and u is None:
            return v, None
        if r < 0.85:
            tag = '$dict' if r < 0.7 else '$setup'
            pool = self.__dict__.setdefault('_shared_pool', {})
            from . import values as _values
            if _values.refs_in(v):
                pool = {}       # (values naming objects belong to one logical file: never reused elsewhere)
            if (tag, t) in pool and rng.random() < 0.35:
                # the caller hands over the very object already used for another attribute of the same kind
                return pool[(tag, t)], None
            d = {'value': v}
            if u is not None:
                d['units'] = u
            lit = {tag: d}
            if rng.random() < 0.4:
                lit['$share'] = 'sh%08x' % rng.randrange(1 << 32)
                pool[(tag, t)] = lit
            return lit, None
        # later: create without, then assign .value (and .units)
        return None, (v, u)

    def add(self, kind, nm=None, attrs=None, p_attr=0.45, extra=None):
        """Add one object of `kind` with a random subset of its attributes (plus `attrs` forced literals)."""
        rng = self.rng
        nm = nm or self._name(kind)
        kwargs = {}
        later = []
        forced = dict(attrs or {})
        for kw, label, t in schema.S[kind]:
            if kw in forced:
                v = forced[kw]
            elif rng.random() < p_attr:
                v = self.value(t)
            else:
                continue
            if v is None:
                continue
            routed, lat = self.route(kw, v, t) if kw not in forced else (v, None)
            if lat is not None:
                later.append((kw, lat))
            else:
                kwargs[kw] = routed
        self._constrain(kind, kwargs, later)
        if extra:
            kwargs.update(extra)
        if self.set_name is not None:
            kwargs['set_name'] = self.set_name
        if self.routes:
            # flavours of the same values: tuples for lists, numpy scalars for single numbers
            table = {k: t for k, _, t in schema.S[kind]}
            for k in list(kwargs):
                if k in table and k not in forced:
                    kwargs[k] = self._flavour_routed(kwargs[k], table[k])
            later = [(k, (self._flavour(v, table.get(k, '')), u)) for k, (v, u) in later]
        h = self.spec.add(self.lfi, kind, nm, **kwargs)
        self.by_kind.setdefault(kind, []).append(h)
        for kw, (v, u) in later:
            an = schema.ITEM_ATTR.get((kind, kw), kw)
            if rng.random() < 0.3:
                # the set_attributes() route: plain value, or value and units together as a dict / AttrSetup
                lit = v if u is None else {rng.choice(['$dict', '$setup']): {'value': v, 'units': u}}
                self.spec.emit({'op': 'set_attrs', 'h': h, 'kwargs': {an: lit}})
                continue
            self.spec.emit({'op': 'set', 'h': h, 'attr': an, 'kw': kw, 'part': 'value', 'v': v})
            if u is not None:
                self.spec.emit({'op': 'set', 'h': h, 'attr': an, 'kw': kw, 'part': 'units', 'v': u})
        return h

    def _flavour(self, v, t):
        rng = self.rng
        base = t.partition(':')[0]
        if isinstance(v, list) and v and all(isinstance(x, float) for x in v) and rng.random() < 0.15:
            # numpy float64 scalars (a subclass of float) as they come out of numpy computations, e.g. list(-np.linspace(0, 1, 3))
            return [{'$npscalar': ['float64', x]} for x in v]
        if isinstance(v, list) and v and not any(isinstance(x, list) for x in v) and rng.random() < 0.1:
            return {'$tuple': v}
        if base in ('num', 'int') and isinstance(v, (int, float)) and not isinstance(v, bool) and rng.random() < 0.1:
            import numpy as np
            if isinstance(v, int):
                dt = 'uint8' if 0 <= v <= 255 and rng.random() < 0.5 else ('int32' if abs(v) < 2 ** 31 and rng.random() < 0.5 else 'int64')
                if abs(v) >= 2 ** 63:
                    return v
                return {'$npscalar': [dt, v]}
            if v != v or v in (float('inf'), float('-inf')):
                return {'$npscalar': ['float64', v]}
            if rng.random() < 0.5 and abs(v) < 3e38:
                return {'$npscalar': ['float32', float(np.float32(v))]}
            return {'$npscalar': ['float64', v]}
        return v

    def _flavour_routed(self, lit, t):
        if isinstance(lit, dict) and ('$dict' in lit or '$setup' in lit):
            if '$share' in lit:
                return lit
            tag = '$dict' if '$dict' in lit else '$setup'
            inner = dict(lit[tag])
            if 'value' in inner:
                inner['value'] = self._flavour(inner['value'], t)
            return dict(lit, **{tag: inner})
        if isinstance(lit, dict):
            return lit
        return self._flavour(lit, t)

    def _name(self, kind):
        used = self.names.setdefault(kind, [])
        n = gen.name(self.rng, set(used), hc=self.hc, repeat=0.25)
        used.append(n)
        return n

    def _constrain(self, kind, kw, later):
        """Keep the object inside the documented valid domain (cross-attribute consistency rules of the library)."""
        rng = self.rng
        lat = dict(later)

        def drop(k):
            kw.pop(k, None)
            for i in range(len(later) - 1, -1, -1):
                if later[i][0] == k:
                    del later[i]

        def plain(k):
            """bring attribute k back to a plain literal under kwargs (no route) and return it"""
            if k in lat:
                v = lat[k][0]
                drop(k)
                kw[k] = v
                return v
            v = kw.get(k)
            if isinstance(v, dict) and ('$dict' in v or '$setup' in v):
                v = (v.get('$dict') or v.get('$setup'))['value']
                kw[k] = v
            return v
        if kind in ('parameter', 'computation'):
            drop('dimension')
            drop('axis')
            zones = plain('zones')
            if 'values' in kw or 'values' in lat:
                vals = plain('values')
                if not isinstance(vals, list):
                    vals = [vals]
                nz = len(zones) if zones else 1
                base = vals[0]
                if kind == 'computation' and isinstance(base, str):
                    base = 1.5
                if zones and rng.random() < 0.25:
                    w = rng.choice([2, 3])
                    kw['values'] = [[base] * w for _ in range(nz)]
                else:
                    vv = [vals[i % len(vals)] for i in range(nz)]
                    kw['values'] = vv if (nz > 1 or rng.random() < 0.7) else vv[0]
        elif kind == 'calibration_coefficient':
            n = rng.choice([1, 2, 3])
            for k in ('coefficients', 'references', 'plus_tolerances', 'minus_tolerances'):
                if k in kw or k in lat:
                    v = plain(k)
                    v = v if isinstance(v, list) else [v]
                    kw[k] = [v[i % len(v)] for i in range(n)]
        elif kind == 'calibration_measurement':
            drop('axis')
            drop('dimension')
            n, w = rng.choice([1, 2]), rng.choice([1, 2, 3])
            nested = 'empty_dimension' in gen.AVOID or rng.random() < 0.8
            if rng.random() < 0.3:
                # the DIMENSION assigned explicitly: [w] for w-wide samples, [1] for plain numbers
                kw['dimension'] = [w] if nested else [1]
            for k in ('maximum_deviation', 'standard_deviation', 'standard', 'plus_tolerance', 'minus_tolerance'):
                if k in kw or k in lat:
                    v = plain(k)
                    v = v if isinstance(v, list) else [v]
                    if nested:
                        kw[k] = [[v[(i + j) % len(v)] for j in range(w)] for i in range(n)]
                    else:
                        kw[k] = [v[i % len(v)] for i in range(n)]
        elif kind == 'splice':
            if ('input_channels' in kw or 'input_channels' in lat) and ('zones' in kw or 'zones' in lat):
                ic, z = plain('input_channels'), plain('zones')
                n = min(len(ic), len(z))
                kw['input_channels'], kw['zones'] = ic[:n], z[:n]
        elif kind == 'zone':
            dom = plain('domain') if ('domain' in kw or 'domain' in lat) else None
            dv = dom if isinstance(dom, str) else (schema.ENUMS['ZoneDomain'][dom['$enum'][1]] if dom else None)
            mx = plain('maximum') if ('maximum' in kw or 'maximum' in lat) else None
            mn = plain('minimum') if ('minimum' in kw or 'minimum' in lat) else None

            def is_dt(v):
                return isinstance(v, str) or (isinstance(v, dict) and '$dt' in v)
            if dv == 'TIME':
                if mx is not None and mn is not None and is_dt(mx) != is_dt(mn):
                    kw['minimum'] = dtime(rng) if is_dt(mx) else number(rng)
            elif dv is not None:
                for k, v in (('maximum', mx), ('minimum', mn)):
                    if v is not None and is_dt(v):
                        kw[k] = number(rng)
        elif kind == 'channel':
            drop('dimension')
            drop('element_limit')
            drop('axis')
        elif kind == 'frame':
            for k in ('spacing', 'index_min', 'index_max', 'direction', 'encrypted'):
                pass


def populate(spec, lfi, rng, n=None, kinds=None, hc=False, routes=True, set_name=None, p_attr=0.45, units=True, shared_pool=None):
    """Add n metadata objects in a dependency-friendly order (targets before referrers, with repeats)."""
    m = Meta(spec, lfi, rng, hc=hc, routes=routes, set_name=set_name, units=units)
    if shared_pool is not None:
        m._shared_pool = shared_pool      # value objects the caller reuses across files / logical files
    order = ['zone', 'axis', 'long_name', 'well_reference_point', 'equipment', 'parameter', 'computation', 'tool',
             'calibration_coefficient', 'calibration_measurement', 'calibration', 'process', 'splice', 'path', 'group',
             'message', 'comment', 'no_format']
    kinds = kinds or order
    n = n if n is not None else rng.choice([2, 4, 6, 9, 14])
    seq = sorted((gen.pick(rng, kinds) for _ in range(n)), key=lambda k: order.index(k) if k in order else 99)
    if rng.random() < 0.3:
        rng.shuffle(seq)
    for k in seq:
        m.add(k, p_attr=p_attr)
    return m
