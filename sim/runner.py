"""Process model: every scenario executes in a child forked from a pristine zygote.

execute(scenario) -> {'steps': [...], 'seams': {...}, 'segments': n}   (raises HarnessFailure on harness trouble)
run_cases(fn, items, workers)  -> ordered results, each case run in a pool worker (itself a zygote).
"""
import os
import sys
import time
import pickle
import select
import shutil
import signal
import tempfile
import traceback
import faulthandler
import multiprocessing as mp
from concurrent.futures import ProcessPoolExecutor

RUN_CAP_S = float(os.environ.get('VERIF_RUN_CAP_S', '20'))
SCRATCH_ROOT = '/dev/shm' if os.path.isdir('/dev/shm') and os.access('/dev/shm', os.W_OK) else tempfile.gettempdir()


class HarnessFailure(Exception):
    def __init__(self, kind, detail=''):
        Exception.__init__(self, '%s: %s' % (kind, detail))
        self.kind = kind
        self.detail = detail


_warmed = False


def warm():
    """Import everything a run needs and pre-warm lazy numpy/progressbar paths; never call a dliswriter encoder."""
    global _warmed
    if _warmed:
        return
    import numpy as np
    import h5py  # noqa
    import dliswriter  # noqa
    import progressbar  # noqa
    import zoneinfo  # noqa
    a = np.arange(6, dtype=np.float64)
    np.unique(np.diff(a))
    np.median(a)
    a.min(), a.max()
    np.zeros(2, dtype=[('a', '<f8'), ('b', '<i4', (2,))])
    np.array([1, 2]).astype('>f4').byteswap().tobytes()
    from . import world, values, rp66  # noqa
    _warmed = True


def _child(scenario, scratch, start, wfd):
    from . import world as W
    devnull = os.open(os.devnull, os.O_WRONLY)
    os.dup2(devnull, 2)
    faulthandler.disable()

    def emit(results, crashed):
        payload = pickle.dumps({'steps': results, 'crashed': crashed, 'seams': w.seams}, protocol=4)
        with os.fdopen(wfd, 'wb', closefd=False) as f:
            f.write(payload)

    w = W.World(scratch, scenario.get('env'), emit=emit)
    try:
        w.install()
        w.run(scenario['history'][start:])
        emit(w.results, False)
        os._exit(0)
    except SystemExit:
        raise
    except BaseException as e:  # harness trouble inside the child
        try:
            payload = pickle.dumps({'harness_error': ''.join(traceback.format_exception(type(e), e, e.__traceback__))[-3000:],
                                    'steps': w.results}, protocol=4)
            with os.fdopen(wfd, 'wb', closefd=False) as f:
                f.write(payload)
        finally:
            os._exit(3)


def _fork_run(scenario, scratch, start):
    rfd, wfd = os.pipe()
    pid = os.fork()
    if pid == 0:
        os.close(rfd)
        try:
            _child(scenario, scratch, start, wfd)
        finally:
            os._exit(4)
    os.close(wfd)
    chunks = []
    cap = float((scenario.get('env') or {}).get('run_cap_s') or RUN_CAP_S)
    deadline = time.monotonic() + cap
    timed_out = False
    while True:
        left = deadline - time.monotonic()
        if left <= 0:
            timed_out = True
            break
        r, _, _ = select.select([rfd], [], [], min(left, 1.0))
        if r:
            b = os.read(rfd, 1 << 20)
            if not b:
                break
            chunks.append(b)
    os.close(rfd)
    if timed_out:
        try:
            os.kill(pid, signal.SIGKILL)
        except ProcessLookupError:
            pass
        os.waitpid(pid, 0)
        raise HarnessFailure('HARNESS-TIMEOUT', 'scenario exceeded %.0fs' % cap)
    _, status = os.waitpid(pid, 0)
    code = os.waitstatus_to_exitcode(status)
    data = b''.join(chunks)
    if not data:
        raise HarnessFailure('HARNESS-CHILD-DIED', 'exit code %s, no result' % code)
    res = pickle.loads(data)
    if 'harness_error' in res:
        raise HarnessFailure('HARNESS-ERROR', res['harness_error'])
    res['exit'] = code
    return res


def execute(scenario, keep_scratch=False):
    """Run a scenario (with restarts after simulated crashes) and return the step results."""
    warm()
    scratch = tempfile.mkdtemp(prefix='verif-', dir=SCRATCH_ROOT)
    try:
        hist = scenario['history']
        steps = [None] * len(hist)
        start = 0
        segments = 0
        seams = {}
        while start < len(hist):
            segments += 1
            res = _fork_run(scenario, scratch, start)
            seams.update(res.get('seams') or {})
            got = res['steps']
            idxs = [i for i in range(start, len(hist)) if hist[i].get('op') != 'restart']
            for i, r in zip(idxs, got):
                steps[i] = r
            if res.get('crashed'):
                crashed_at = idxs[len(got) - 1]
                nxt = None
                for j in range(crashed_at + 1, len(hist)):
                    if hist[j].get('op') == 'restart':
                        nxt = j + 1
                        break
                if nxt is None:
                    break
                start = nxt
            else:
                break
        for r in steps:
            if r and r.get('harness_tb'):
                raise HarnessFailure('HARNESS-ERROR', r['harness_tb'])
        out = {'steps': steps, 'seams': seams, 'segments': segments}
        if keep_scratch:
            out['scratch'] = scratch
        return out
    finally:
        if not keep_scratch:
            shutil.rmtree(scratch, ignore_errors=True)


# --------------------------------------------------------------------------------------
# pool of case workers

def _init_worker():
    signal.signal(signal.SIGINT, signal.SIG_IGN)
    warm()


def _run_one(args):
    fn_mod, fn_name, item = args
    import importlib
    fn = getattr(importlib.import_module(fn_mod), fn_name)
    t0 = time.monotonic()
    try:
        return {'ok': True, 'value': fn(item), 'wall': time.monotonic() - t0}
    except HarnessFailure as e:
        return {'ok': False, 'kind': e.kind, 'detail': e.detail, 'item': item}
    except BaseException as e:
        return {'ok': False, 'kind': 'HARNESS-ERROR',
                'detail': ''.join(traceback.format_exception(type(e), e, e.__traceback__))[-3000:], 'item': item}


def run_cases(fn_mod, fn_name, items, workers=None, deadline=None, on_result=None):
    """Run fn(item) for every item in worker processes; results in item order (None if not run before `deadline`)."""
    workers = workers or int(os.environ.get('VERIF_WORKERS', '0')) or min(16, os.cpu_count() or 1)
    items = list(items)
    results = [None] * len(items)
    if workers <= 1:
        warm()
        for i, it in enumerate(items):
            if deadline and time.monotonic() > deadline:
                break
            results[i] = _run_one((fn_mod, fn_name, it))
            if on_result:
                on_result(i, results[i])
        return results
    ctx = mp.get_context('fork')
    ex = ProcessPoolExecutor(max_workers=workers, mp_context=ctx, initializer=_init_worker)
    try:
        # feed in windows so that a deadline stops generation of new work
        window = workers * 4
        pending = {}
        nxt = 0
        import concurrent.futures as cf
        while nxt < len(items) or pending:
            while nxt < len(items) and len(pending) < window:
                if deadline and time.monotonic() > deadline:
                    nxt = len(items)
                    break
                fut = ex.submit(_run_one, (fn_mod, fn_name, items[nxt]))
                pending[fut] = nxt
                nxt += 1
            if not pending:
                break
            done, _ = cf.wait(list(pending), timeout=max(RUN_CAP_S * 6 + 30, 900), return_when=cf.FIRST_COMPLETED)
            if not done:
                raise HarnessFailure('HARNESS-TIMEOUT', 'worker pool made no progress')
            for fut in done:
                i = pending.pop(fut)
                try:
                    results[i] = fut.result()
                except BaseException as e:
                    results[i] = {'ok': False, 'kind': 'HARNESS-WORKER-DIED', 'detail': repr(e), 'item': items[i]}
                if on_result:
                    on_result(i, results[i])
        return results
    finally:
        ex.shutdown(wait=False, cancel_futures=True)
