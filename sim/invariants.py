"""Decode-level oracles shared by several properties. Each returns a list of violation dicts (rule ids carry the
property prefix given by the caller where they are property-specific)."""
import math
import struct

from . import rp66, model as M
from .oracles.common import V

FMT = {2: '>f', 7: '>d', 12: '>b', 13: '>h', 14: '>i', 15: '>B', 16: '>H', 17: '>I'}


def len_class(n, cap=None):
    if n == 0:
        return '0'
    if n < 12:
        return 'lt12'
    if cap and n > cap:
        return 'gt_capacity'
    return 'odd' if n % 2 else 'even'


# ------------------------------------------------------------------------------ C01

def layout(data, mf, prop='C01'):
    out = []
    fr = rp66.parse_framing(data)
    for e in fr.errors:
        out.append(V('%s.%s' % (prop, e.rule.split('.', 1)[1]), {'field': e.detail.get('field')}, **e.detail))
    if fr.sul is not None and mf is not None:
        kw = mf.kwargs
        want_seq = str(kw.get('sul_sequence_number', 1)).rjust(4)
        want_mrl = str(kw.get('max_record_length', 8192)).rjust(5)
        ident = kw.get('set_identifier')
        want_id = ('MAIN-STORAGE-UNIT' if ident is None else ident).ljust(60)
        for field, want, got in (('sequence_number', want_seq, fr.sul['sequence_raw']),
                                 ('max_record_length', want_mrl, fr.sul['max_record_length_raw']),
                                 ('set_identifier', want_id, fr.sul['set_identifier'])):
            if want != got:
                out.append(V('%s.sul_field' % prop, {'field': field}, want=want, got=got))
        mrl = kw.get('max_record_length', 8192)
        for off, ln in fr.vrs:
            if ln > mrl:
                out.append(V('%s.vr_length_over_max' % prop, {}, at=off, length=ln, max=mrl))
                break
    return out, fr


# ------------------------------------------------------------------------------ C03

def rows(model, dec, fid, write_op, prop='C03', extra_fp=None):
    out = []
    stats = {'frames': 0, 'rows': 0}
    loc, pairs = M.locate(model, dec, fid)
    for e in dec.errors:
        if e.rule in ('iflr.frame_ref_unresolved',):
            out.append(V('%s.frame_ref' % prop, dict(extra_fp or {}), **e.detail))
    for lfm, lfd, ms, rest in pairs:
        if lfd is None:
            continue
        seen = set()
        for fm in lfm.of_kind('frame'):
            exp, info = M.expected_rows(fm, model, write_op)
            if exp is None or fm.h not in loc:
                continue
            lens = M.row_counts(fm, model, write_op)
            if len(set(lens)) > 1:
                out.append(V('%s.unequal_row_counts_accepted' % prop, dict(extra_fp or {}), frame=fm.name, row_counts=lens))
                continue
            stats['frames'] += 1
            obname = loc[fm.h][1].name
            seen.add(obname)
            got = lfd.frames.get(obname)
            grow = got.rows if got else []
            fp = dict(extra_fp or {})
            if len(grow) != len(exp):
                out.append(V('%s.row_count' % prop, fp, frame=fm.name, want=len(exp), got=len(grow)))
                continue
            for i, (fno, slots, rest_b, ri) in enumerate(grow):
                stats['rows'] += 1
                if fno != i + 1:
                    out.append(V('%s.frame_number' % prop, fp, frame=fm.name, position=i, got=fno))
                    break
                want = exp[i]
                if slots is None:
                    if rest_b != b''.join(want):
                        out.append(V('%s.slot_bits' % prop, dict(fp, layout='unsliced'), frame=fm.name, row=i,
                                     want=b''.join(want), got=rest_b))
                        break
                    continue
                bad = [k for k in range(len(want)) if k >= len(slots) or slots[k] != want[k]]
                if bad:
                    k = bad[0]
                    f2 = dict(fp, dtype=info[k]['dtype'], src=info[k]['src_dtype'], cast=bool(info[k]['cast']),
                              width='scalar' if info[k]['shape'] == [1] else 'array')
                    gk = slots[k] if k < len(slots) else b''
                    isz = len(want[k]) // max(len(want[k]) // {'8': 1, '16': 2, '32': 4, '64': 8}[''.join(
                        c for c in info[k]['dtype'] if c.isdigit())], 1)
                    f2['elementwise_byteswapped'] = bool(isz > 1 and gk == b''.join(
                        want[k][j:j + isz][::-1] for j in range(0, len(want[k]), isz)))
                    rule = 'slot_bits'
                    if slots is not None and len(slots) == len(want) and len(gk) != len(want[k]):
                        rule = 'undeclared_cast'
                        f2['narrowed'] = len(gk) < len(want[k])
                    out.append(V('%s.%s' % (prop, rule), f2, frame=fm.name, row=i, channel=info[k]['name'],
                                 want=want[k], got=slots[k] if k < len(slots) else None))
                    break
        for obname, fr in lfd.frames.items():
            if obname not in seen and fr.rows and all(M.expected_rows(fm, model, write_op)[0] is not None
                                                      for fm in lfm.of_kind('frame')):
                out.append(V('%s.frame_ref' % prop, dict(extra_fp or {}), unexpected_frame=obname, rows=len(fr.rows)))
    return out, stats


# ------------------------------------------------------------------------------ C16

def payloads(model, dec, fid, prop='C16', cap=None):
    out = []
    n = 0
    loc, pairs = M.locate(model, dec, fid)
    for lfm, lfd, ms, rest in pairs:
        if lfd is None:
            continue
        want = [(h, M.payload_bytes(p)) for h, p in lfm.nf_data]
        got = [r[1] for r in lfd.records if r[0] == 'nofmt']
        if len(want) != len(got):
            out.append(V('%s.payload_count' % prop, {}, want=len(want), got=len(got)))
            continue
        for i, ((h, wb), g) in enumerate(zip(want, got)):
            n += 1
            fp = {'len': len_class(len(wb), cap)}
            if h in loc and loc[h][1].name != g['obj']:
                out.append(V('%s.wrong_object' % prop, fp, position=i, want=loc[h][1].name, got=g['obj']))
                break
            if g['payload'] != wb:
                # same multiset in another order?
                rule = 'payload_order' if sorted(x[1] for x in want) == sorted(x['payload'] for x in got) else 'payload_differs'
                gp = g['payload']
                ob = 3 + len(g['obj'][2])
                fp['in_body_pad'] = bool(ob + len(wb) < 12 and ob + len(gp) == 12 and gp[:len(wb)] == wb and
                                         set(gp[len(wb):]) == {1})
                out.append(V('%s.%s' % (prop, rule), fp, position=i, want=wb, got=g['payload'], want_len=len(wb),
                             got_len=len(g['payload'])))
                break
    return out, n


# ------------------------------------------------------------------------------ C08

def _vals(o, label):
    a = o.attrs.get(label)
    if a is None or not a.has_value:
        return None
    return a.values


def descriptors(model, dec, fid, write_op, prop='C08', extra_fp=None):
    out = []
    n = 0
    loc, pairs = M.locate(model, dec, fid)
    for e in dec.errors:
        if e.rule in ('iflr.fdata_length', 'iflr.channel_repcode', 'iflr.channel_dimension', 'iflr.channel_unresolved'):
            out.append(V('%s.record_length_equation' % prop, dict(extra_fp or {}, why=e.rule), **e.detail))
            break
    for lfm, lfd, ms, rest in pairs:
        if lfd is None:
            continue
        for fm in lfm.of_kind('frame'):
            exp, info = M.expected_rows(fm, model, write_op)
            if exp is None:
                continue
            chans = [model.objs[r['$ref']] for r in M._lit_list(fm.kwargs.get('channels'))]
            for cm, inf in zip(chans, info):
                if cm.h not in loc:
                    continue
                n += 1
                o = loc[cm.h][1]
                fp = dict(extra_fp or {}, dtype=inf['dtype'], cast=bool(inf['cast']),
                          width='scalar' if inf['shape'] == [1] else 'array')
                rc = _vals(o, 'REPRESENTATION-CODE')
                if rc != [inf['code']]:
                    out.append(V('%s.code_vs_dtype' % prop, fp, channel=cm.name, want=inf['code'], got=rc))
                dim = _vals(o, 'DIMENSION')
                if dim != inf['shape']:
                    out.append(V('%s.dimension_vs_shape' % prop, fp, channel=cm.name, want=inf['shape'], got=dim))
                el = _vals(o, 'ELEMENT-LIMIT')
                if el is None or len(el) < len(inf['shape']) or any(a < b for a, b in zip(el, inf['shape'])):
                    out.append(V('%s.element_limit' % prop, fp, channel=cm.name, dimension=inf['shape'], got=el))
    return out, n


# ------------------------------------------------------------------------------ C13

def _num(code, raw):
    return struct.unpack(FMT[code], raw)[0]


def user_value(fm, key):
    """(given?, literal) for a frame attribute explicitly supplied by the user (creation or later)."""
    given, lit = False, None
    v = fm.kwargs.get(key)
    if v is not None:
        if isinstance(v, dict) and ('$setup' in v or '$dict' in v):
            inner = v.get('$setup') or v.get('$dict')
            if inner.get('value') is not None:
                given, lit = True, inner['value']
        else:
            given, lit = True, v
    for attr, part, l2, _ in fm.sets_later:
        if attr == key and part == 'value':
            given, lit = True, l2
    return given, lit


def index_values(lfd, o):
    """Index values of a frame object (first channel, decoded with the code declared in the same file) or None."""
    fr = lfd.frames.get(tuple(o.name))
    rows_ = fr.rows if fr else []
    if not rows_ or any(r[1] is None for r in rows_):
        return None
    try:
        lay = rp66.channel_layout(lfd, o)
    except rp66.DecodeError:
        return None
    code = lay[0][1]
    if lay[0][2] != 1 or code not in FMT:
        return None
    return [_num(code, r[1][0]) for r in rows_]


def uniformity(xs):
    """('uniform' | 'nonuniform' | 'band' | None, dev) of consecutive differences by the documented rule (dev < 0.001)."""
    if any(isinstance(x, float) and (x != x or math.isinf(x)) for x in xs):
        return None, None
    diffs = [b - a for a, b in zip(xs, xs[1:])]
    if not diffs:
        return None, None
    sd = sorted(diffs)
    med = sd[len(sd) // 2] if len(sd) % 2 else (sd[len(sd) // 2 - 1] + sd[len(sd) // 2]) / 2
    if all(d == diffs[0] for d in diffs):
        return 'uniform', 0.0
    if med == 0:
        return 'nonuniform', float('inf')
    dev = max((1 - d / med) ** 2 for d in diffs)
    return ('uniform' if dev < 0.00098 else ('nonuniform' if dev > 0.00102 else 'band')), dev


def index_meta(model, dec, fid, write_op, prop='C13', extra_fp=None):
    out = []
    stats = {'frames': 0, 'skipped_nan': 0, 'band_skipped': 0, 'indexed': 0, 'uniform': 0, 'nonuniform': 0, 'single_row': 0}
    loc, pairs = M.locate(model, dec, fid)
    for lfm, lfd, ms, rest in pairs:
        if lfd is None:
            continue
        for fm in lfm.of_kind('frame'):
            if fm.h not in loc:
                continue
            s, o, li = loc[fm.h]
            fr = lfd.frames.get(o.name)
            rows_ = fr.rows if fr else []
            if not rows_ or any(r[1] is None for r in rows_):
                continue
            stats['frames'] += 1
            fp = dict(extra_fp or {})
            it = _vals(o, 'INDEX-TYPE')
            imin, imax = _vals(o, 'INDEX-MIN'), _vals(o, 'INDEX-MAX')
            sp, di = _vals(o, 'SPACING'), _vals(o, 'DIRECTION')
            u_min, u_max = user_value(fm, 'index_min'), user_value(fm, 'index_max')
            u_sp, u_di = user_value(fm, 'spacing'), user_value(fm, 'direction')
            for label, (given, lit), got in (('INDEX-MIN', u_min, imin), ('INDEX-MAX', u_max, imax), ('SPACING', u_sp, sp),
                                             ('DIRECTION', u_di, di)):
                if given and isinstance(lit, (int, float, str)):
                    if got is None or len(got) != 1 or got[0] != lit:
                        out.append(V('%s.user_value_changed' % prop, dict(fp, label=label), frame=fm.name, want=lit, got=got))
            n = len(rows_)
            if not it:
                fp['indexed'] = False
                if not u_min[0] and imin != [1]:
                    out.append(V('%s.row_number_bounds' % prop, dict(fp, label='INDEX-MIN'), frame=fm.name, want=1, got=imin))
                if not u_max[0] and imax != [n]:
                    out.append(V('%s.row_number_bounds' % prop, dict(fp, label='INDEX-MAX'), frame=fm.name, want=n, got=imax))
                continue
            stats['indexed'] += 1
            fp['indexed'] = True
            # index channel = first channel of the frame, decoded with the code declared in the same file
            try:
                lay = rp66.channel_layout(lfd, o)
            except rp66.DecodeError:
                continue
            code = lay[0][1]
            if lay[0][2] != 1 or code not in FMT:
                continue
            xs = [_num(code, r[1][0]) for r in rows_]
            fp['dtype'] = rp66.CODE_NAMES[code]
            if any(isinstance(x, float) and (x != x or math.isinf(x)) for x in xs):
                stats['skipped_nan'] += 1
                continue
            if not u_min[0] and (imin is None or len(imin) != 1 or imin[0] != min(xs)):
                out.append(V('%s.index_min' % prop, fp, frame=fm.name, want=min(xs), got=imin, rows=n))
            if not u_max[0] and (imax is None or len(imax) != 1 or imax[0] != max(xs)):
                out.append(V('%s.index_max' % prop, fp, frame=fm.name, want=max(xs), got=imax, rows=n))
            diffs = [b - a for a, b in zip(xs, xs[1:])]
            if not diffs:
                stats['single_row'] += 1
                fp['mono'] = 'single_row'
                if not u_sp[0] and sp is not None and any(isinstance(v, float) and v != v for v in sp):
                    out.append(V('%s.spacing_value' % prop, fp, frame=fm.name, got=sp, why='NaN spacing for a single row'))
                continue
            sd = sorted(diffs)
            med = sd[len(sd) // 2] if len(sd) % 2 else (sd[len(sd) // 2 - 1] + sd[len(sd) // 2]) / 2
            if all(d == diffs[0] for d in diffs):
                cls, dev = 'uniform', 0.0
            elif med == 0:
                cls, dev = 'nonuniform', float('inf')
            else:
                dev = max((1 - d / med) ** 2 for d in diffs)
                # the documented limit (the comment in FrameItem._compute_spacing_and_direction) is dev < 0.001; within 2 % of it
                # rounding in the index dtype may decide either way: no verdict there
                cls = 'uniform' if dev < 0.00098 else ('nonuniform' if dev > 0.00102 else 'band')
            if all(d == 0 for d in diffs):
                mono = 'const'
            elif all(d >= 0 for d in diffs):
                mono = 'inc'
            elif all(d <= 0 for d in diffs):
                mono = 'dec'
            else:
                mono = 'none'
            fp['mono'] = mono
            fp['unsigned_negative_step'] = code in (15, 16, 17) and any(d < 0 for d in diffs)
            if cls == 'band':
                stats['band_skipped'] += 1
                continue
            if cls == 'uniform':
                stats['uniform'] += 1
                if u_sp[0]:
                    continue
                if sp is None or len(sp) != 1:
                    out.append(V('%s.spacing_missing_but_uniform' % prop, fp, frame=fm.name, diff=med, got=sp))
                else:
                    # the library takes the differences in the index dtype: float32 arithmetic differs from the float64 difference
                    # of the decoded values by up to one float32 ulp - not a disagreement about which difference is meant
                    exact_tol = 2e-6 if code == 2 else (1e-12 if code == 7 else 0.0)
                    ok = abs(sp[0] - med) <= exact_tol * abs(med) if dev == 0.0 else abs(sp[0] - med) <= 1e-3 * abs(med)
                    if not ok:
                        out.append(V('%s.spacing_value' % prop, fp, frame=fm.name, want=med, got=sp[0], first_rows=xs[:4]))
            else:
                stats['nonuniform'] += 1
                if not u_sp[0] and sp is not None:
                    out.append(V('%s.spacing_present_but_nonuniform' % prop, fp, frame=fm.name, got=sp, diffs=diffs[:6]))
                if not u_di[0]:
                    want = {'inc': ['INCREASING'], 'dec': ['DECREASING']}.get(mono)
                    if di != want:
                        out.append(V('%s.direction' % prop, fp, frame=fm.name, want=want, got=di, diffs=diffs[:6]))
    return out, stats


# ------------------------------------------------------------------------------ C09

def record_order(model, dec, fid, prop='C09', extra_fp=None):
    out = []
    mf = model.files[fid]
    fp0 = dict(extra_fp or {})
    if len(dec.lfs) != len(mf.lfs):
        out.append(V('%s.logical_file_count' % prop, fp0, want=len(mf.lfs), got=len(dec.lfs)))
    for e in dec.errors:
        if e.rule in ('file.no_header_first', 'file.iflr_before_header'):
            out.append(V('%s.no_header_first' % prop, fp0, **e.detail))
        elif e.rule == 'eflr.set_without_objects':
            out.append(V('%s.set_empty' % prop, fp0, **e.detail))
    for li, lfm in enumerate(mf.lfs):
        if li >= len(dec.lfs):
            break
        lfd = dec.lfs[li]
        fp = dict(fp0, lf=min(li, 2))
        recs = lfd.records
        hdr = lfd.header
        if hdr is None or not recs or recs[0][0] != 'set' or recs[0][1] is not hdr:
            out.append(V('%s.no_header_first' % prop, fp, lf=li))
            continue
        if len(hdr.objects) != 1:
            out.append(V('%s.header_fields' % prop, dict(fp, field='object_count'), got=len(hdr.objects)))
            continue
        ho = hdr.objects[0]
        seq = str(lfm.kwargs.get('fh_sequence_number', 1)).rjust(10)
        hid = lfm.kwargs.get('fh_id', 'FILE-HEADER')
        if _vals(ho, 'SEQUENCE-NUMBER') != [seq]:
            out.append(V('%s.header_fields' % prop, dict(fp, field='SEQUENCE-NUMBER'), want=seq, got=_vals(ho, 'SEQUENCE-NUMBER')))
        if _vals(ho, 'ID') != [hid.ljust(65)]:
            out.append(V('%s.header_fields' % prop, dict(fp, field='ID'), want=hid.ljust(65), got=_vals(ho, 'ID')))
        # origins immediately after the header
        kinds = [(r[1].type if r[0] == 'set' else r[0]) for r in recs]
        if len(kinds) < 2 or kinds[1] != 'ORIGIN':
            out.append(V('%s.origin_not_second' % prop, fp, got=kinds[:4]))
        else:
            j = 1
            while j < len(kinds) and kinds[j] == 'ORIGIN':
                j += 1
            if 'ORIGIN' in kinds[j:]:
                out.append(V('%s.origin_not_second' % prop, dict(fp, why='origin_sets_not_contiguous'), got=kinds[:8]))
            first = recs[1][1]
            morig = lfm.of_kind('origin')
            if first.objects and morig:
                d = first.objects[0]
                if d.name[2] != morig[0].name:
                    out.append(V('%s.defining_origin' % prop, dict(fp, why='not_first_added'), want=morig[0].name, got=d.name))
                fidv = _vals(d, 'FILE-ID')
                if fidv is None or len(fidv) != 1 or fidv[0].rstrip(' ') != hid.rstrip(' '):
                    out.append(V('%s.defining_origin' % prop, dict(fp, why='file_id'), want=hid, got=fidv))
                if not _vals(d, 'FILE-SET-NUMBER'):
                    out.append(V('%s.defining_origin' % prop, dict(fp, why='file_set_number_absent')))
        # set uniqueness
        seen = set()
        for r in recs:
            if r[0] == 'set':
                k = (r[1].type, r[1].name)
                if k in seen:
                    out.append(V('%s.set_duplicate' % prop, fp, set=list(k)))
                seen.add(k)
        # definitions precede the indirectly formatted records that refer to them
        defined = {}
        for pos, r in enumerate(recs):
            if r[0] == 'set' and r[1].type in ('FRAME', 'CHANNEL', 'NO-FORMAT'):
                for ob in r[1].objects:
                    defined.setdefault((r[1].type, ob.name), pos)
        frames_checked = set()
        for pos, r in enumerate(recs):
            if r[0] == 'fdata':
                ob = r[1]['frame']
                if ob in frames_checked:
                    continue
                frames_checked.add(ob)
                if defined.get(('FRAME', ob), 10 ** 9) > pos:
                    out.append(V('%s.object_after_iflr' % prop, dict(fp, what='FRAME'), obj=ob))
                    continue
                fo = lfd.find_object('FRAME', ob)
                for ch in (_vals(fo[0], 'CHANNELS') or []) if fo else []:
                    if defined.get(('CHANNEL', tuple(ch)), 10 ** 9) > pos:
                        out.append(V('%s.object_after_iflr' % prop, dict(fp, what='CHANNEL'), obj=ch))
            elif r[0] == 'nofmt':
                ob = r[1]['obj']
                if ('nf', ob) in frames_checked:
                    continue
                frames_checked.add(('nf', ob))
                if defined.get(('NO-FORMAT', ob), 10 ** 9) > pos:
                    out.append(V('%s.object_after_iflr' % prop, dict(fp, what='NO-FORMAT'), obj=ob))
    return out


def inventories(model, dec, fid, prop='content', extra_fp=None):
    """Per logical file and per set: exactly the objects the specification holds, in definition order (no ghost, none missing)."""
    out = []
    mf = model.files[fid]
    for li, lfm in enumerate(mf.lfs):
        if li >= len(dec.lfs):
            break
        lfd = dec.lfs[li]
        want = {}
        for st, sn, objs in lfm.sets():
            names = []
            for o in objs:
                nm = o.name
                for p, lit, _ in o.props_later:
                    if p == 'name':
                        nm = lit
                names.append(nm)
            want[(st, sn or None)] = names
        got = {}
        for s in lfd.sets:
            if s.type != 'FILE-HEADER':
                got.setdefault((s.type, s.name or None), []).extend(o.name[2] for o in s.objects)
        if want != got:
            extra = {str(k): v for k, v in got.items() if want.get(k) != v}
            miss = {str(k): v for k, v in want.items() if got.get(k) != v}
            out.append(V('%s.inventory' % prop, dict(extra_fp or {}, lf=li), got=extra, want=miss))
    return out


# ------------------------------------------------------------------------------ conjunction (C12, C17)

def faithful(model, dec, fid, write_op, env_tz='UTC', data_file=None):
    """All content oracles on one successfully written file: well-formed at every layer and equal to the specification.
    -> list of (inner rule, fingerprint, detail) violations, each rule prefixed by the layer it comes from."""
    from . import expect
    out = []
    for e in dec.errors:
        out.append(V('undecodable.' + e.rule, {'layer': e.rule.split('.')[0]}, **e.detail))
        if len(out) >= 3:
            break
    if out:
        return out
    mf = model.files[fid]
    out.extend(inventories(model, dec, fid, prop='content'))
    v, _ = layout(data_file, mf, prop='layout') if data_file is not None else ([], None)
    out.extend(v)
    out.extend(record_order(model, dec, fid, prop='order'))
    v, _ = rows(model, dec, fid, write_op, prop='rows')
    out.extend(v)
    v, _ = payloads(model, dec, fid, prop='payloads')
    out.extend(v)
    v, _ = descriptors(model, dec, fid, write_op, prop='descriptors')
    out.extend(v)
    v, _ = expect.compare(model, dec, fid, env_tz=env_tz, prop='content')
    out.extend(v)
    return out
