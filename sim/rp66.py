"""Strict RP66 V1 reader, written from the standard (see DESIGN.md appendix C).

Independent of dliswriter and dlisio: imports neither.  Never raises on malformed input:
every deviation becomes an Err(rule, detail) attached to the structure it was found in.

Layers
  1 framing      parse_framing(data)            -> Framing
  2 reassembly   reassemble(framing)            -> [Record]
  3 EFLR grammar parse_eflr(body)               -> SetRec
  4 IFLR         parse_iflr_head(body)          -> (obname, rest)
  5 file         decode_file(data)              -> File (logical files, sets, frame rows, payloads)
"""
import struct

# --------------------------------------------------------------------------------------
# errors


class Err:
    __slots__ = ('rule', 'detail')

    def __init__(self, rule, **detail):
        self.rule = rule
        self.detail = detail

    def __repr__(self):
        return 'Err(%s %s)' % (self.rule, self.detail)

    def to_json(self):
        return {'rule': self.rule, 'detail': {k: _j(v) for k, v in self.detail.items()}}


def _j(v):
    if isinstance(v, (bytes, bytearray)):
        return v[:64].hex()
    if isinstance(v, (list, tuple)):
        return [_j(x) for x in v]
    if isinstance(v, dict):
        return {str(k): _j(x) for k, x in v.items()}
    if isinstance(v, float) and v != v:
        return 'nan'
    if isinstance(v, (int, float, str, bool)) or v is None:
        return v
    return repr(v)


# --------------------------------------------------------------------------------------
# layer 1: framing

class Seg:
    __slots__ = ('off', 'length', 'attr', 'type', 'body', 'pad', 'vr')

    def __init__(self, off, length, attr, type_, body, pad, vr):
        self.off, self.length, self.attr, self.type, self.body, self.pad, self.vr = \
            off, length, attr, type_, body, pad, vr

    @property
    def is_eflr(self):
        return bool(self.attr & 0x80)

    @property
    def has_pred(self):
        return bool(self.attr & 0x40)

    @property
    def has_succ(self):
        return bool(self.attr & 0x20)


class Framing:
    def __init__(self):
        self.sul = None          # dict of decoded SUL fields (or None)
        self.sul_raw = b''
        self.vrs = []            # [(offset, length)]
        self.segs = []           # [Seg]
        self.errors = []         # [Err]
        self.size = 0

    def boundaries(self):
        """Set of byte offsets at which the file could legitimately end: after the SUL and after each VR."""
        b = {80}
        for off, ln in self.vrs:
            b.add(off + ln)
        return b


def _ascii_ok(b):
    return all(0x20 <= c < 0x7f for c in b)


def parse_sul(b, errs):
    f = {}
    if len(b) < 80:
        errs.append(Err('framing.sul_length', got=len(b)))
        return None
    b = b[:80]
    if not _ascii_ok(b):
        errs.append(Err('framing.sul_field', field='non_ascii'))
    seq, ver, stru, mrl, ident = b[0:4], b[4:9], b[9:15], b[15:20], b[20:80]
    f['sequence_raw'] = seq.decode('latin1')
    f['version'] = ver.decode('latin1')
    f['structure'] = stru.decode('latin1')
    f['max_record_length_raw'] = mrl.decode('latin1')
    f['set_identifier'] = ident.decode('latin1')
    s = f['sequence_raw'].lstrip(' ')
    if not s.isdigit() or int(s) < 1 or f['sequence_raw'] != s.rjust(4):
        errs.append(Err('framing.sul_field', field='sequence_number', raw=f['sequence_raw']))
        f['sequence_number'] = None
    else:
        f['sequence_number'] = int(s)
    if f['version'] != 'V1.00':
        errs.append(Err('framing.sul_field', field='version', raw=f['version']))
    if f['structure'] != 'RECORD':
        errs.append(Err('framing.sul_field', field='structure', raw=f['structure']))
    m = f['max_record_length_raw'].lstrip(' ')
    if not m.isdigit() or f['max_record_length_raw'] != m.rjust(5):
        errs.append(Err('framing.sul_field', field='max_record_length', raw=f['max_record_length_raw']))
        f['max_record_length'] = None
    else:
        f['max_record_length'] = int(m)
        if f['max_record_length'] != 0 and not (20 <= f['max_record_length'] <= 16384):
            errs.append(Err('framing.sul_field', field='max_record_length_range', raw=f['max_record_length']))
    return f


def parse_framing(data):
    fr = Framing()
    data = bytes(data)
    fr.size = len(data)
    errs = fr.errors
    fr.sul_raw = data[:80]
    fr.sul = parse_sul(data, errs)
    if fr.sul is None:
        return fr
    maxlen = fr.sul.get('max_record_length') or 16384
    pos = 80
    n = len(data)
    vi = 0
    while pos < n:
        if n - pos < 4:
            errs.append(Err('framing.trailing_bytes', at=pos, count=n - pos))
            break
        vlen = (data[pos] << 8) | data[pos + 1]
        if data[pos + 2] != 0xFF or data[pos + 3] != 0x01:
            errs.append(Err('framing.vr_marker', at=pos, got=data[pos + 2:pos + 4]))
            break
        if vlen % 2:
            errs.append(Err('framing.vr_length_odd', at=pos, length=vlen))
        if vlen < 20:
            errs.append(Err('framing.vr_length_small', at=pos, length=vlen))
            if vlen < 4:
                break
        if vlen > maxlen:
            errs.append(Err('framing.vr_length_over_max', at=pos, length=vlen, max=maxlen))
        if pos + vlen > n:
            errs.append(Err('framing.vr_truncated', at=pos, length=vlen, available=n - pos))
            break
        fr.vrs.append((pos, vlen))
        spos = pos + 4
        vend = pos + vlen
        while spos < vend:
            if vend - spos < 4:
                errs.append(Err('framing.vr_not_tiled', at=spos, left=vend - spos))
                break
            slen = (data[spos] << 8) | data[spos + 1]
            attr = data[spos + 2]
            typ = data[spos + 3]
            if slen % 2:
                errs.append(Err('framing.seg_length_odd', at=spos, length=slen))
            if slen < 16:
                errs.append(Err('framing.seg_length_small', at=spos, length=slen))
                if slen < 4:
                    break
            if spos + slen > vend:
                errs.append(Err('framing.vr_not_tiled', at=spos, length=slen, left=vend - spos))
                break
            if attr & 0x1E:
                errs.append(Err('framing.seg_attr_bits', at=spos, attr=attr))
            trailer = 0
            if attr & 0x02:
                trailer += 2
            if attr & 0x04:
                trailer += 2
            pad = 0
            if attr & 0x01:
                pc_pos = spos + slen - trailer - 1
                pad = data[pc_pos] if pc_pos >= spos + 4 else 0
                if pad < 1 or pad > slen - 4 - trailer:
                    errs.append(Err('framing.pad_count', at=spos, pad=pad, length=slen))
                    pad = 0
            body = data[spos + 4: spos + slen - trailer - pad]
            fr.segs.append(Seg(spos, slen, attr, typ, body, pad, vi))
            spos += slen
        pos += vlen
        vi += 1
    return fr


# --------------------------------------------------------------------------------------
# layer 2: reassembly

class Record:
    __slots__ = ('is_eflr', 'type', 'body', 'nsegs', 'first_seg', 'off')

    def __init__(self, is_eflr, type_, body, nsegs, first_seg, off):
        self.is_eflr, self.type, self.body, self.nsegs, self.first_seg, self.off = \
            is_eflr, type_, body, nsegs, first_seg, off

    def key(self):
        return (self.is_eflr, self.type, self.body)


def reassemble(fr):
    """-> (records, errors)"""
    recs = []
    errs = []
    cur = None
    for i, s in enumerate(fr.segs):
        if not s.has_pred:
            if cur is not None:
                errs.append(Err('reasm.bracketing', what='record_not_terminated', seg=i))
                recs.append(Record(cur[0], cur[1], b''.join(cur[2]), len(cur[2]), cur[3], cur[4]))
            cur = [s.is_eflr, s.type, [s.body], i, s.off]
        else:
            if cur is None:
                errs.append(Err('reasm.bracketing', what='continuation_without_start', seg=i))
                cur = [s.is_eflr, s.type, [s.body], i, s.off]
            else:
                if s.is_eflr != cur[0] or s.type != cur[1]:
                    errs.append(Err('reasm.type_or_flag_varies', seg=i, got=(s.is_eflr, s.type), want=(cur[0], cur[1])))
                cur[2].append(s.body)
        if not s.has_succ:
            recs.append(Record(cur[0], cur[1], b''.join(cur[2]), len(cur[2]), cur[3], cur[4]))
            cur = None
    if cur is not None:
        errs.append(Err('reasm.bracketing', what='last_record_not_terminated'))
        recs.append(Record(cur[0], cur[1], b''.join(cur[2]), len(cur[2]), cur[3], cur[4]))
    return recs, errs


# --------------------------------------------------------------------------------------
# layer 3: representation codes and EFLR components

class DecodeError(Exception):
    def __init__(self, rule, **detail):
        Exception.__init__(self, rule)
        self.err = Err(rule, **detail)


FIXED = {1: 2, 2: 4, 3: 8, 4: 12, 5: 4, 6: 4, 7: 8, 8: 16, 9: 24, 10: 8, 11: 16,
         12: 1, 13: 2, 14: 4, 15: 1, 16: 2, 17: 4, 26: 1}
_STRUCT = {2: '>f', 7: '>d', 12: '>b', 13: '>h', 14: '>i', 15: '>B', 16: '>H', 17: '>I', 26: '>B'}
CODE_NAMES = {1: 'FSHORT', 2: 'FSINGL', 3: 'FSING1', 4: 'FSING2', 5: 'ISINGL', 6: 'VSINGL', 7: 'FDOUBL', 8: 'FDOUB1',
              9: 'FDOUB2', 10: 'CSINGL', 11: 'CDOUBL', 12: 'SSHORT', 13: 'SNORM', 14: 'SLONG', 15: 'USHORT',
              16: 'UNORM', 17: 'ULONG', 18: 'UVARI', 19: 'IDENT', 20: 'ASCII', 21: 'DTIME', 22: 'ORIGIN',
              23: 'OBNAME', 24: 'OBJREF', 25: 'ATTREF', 26: 'STATUS', 27: 'UNITS'}


class Cur:
    """Byte cursor."""
    __slots__ = ('b', 'p')

    def __init__(self, b, p=0):
        self.b = b
        self.p = p

    def take(self, n, what='value'):
        if self.p + n > len(self.b):
            raise DecodeError('decode.truncated', what=what, need=n, left=len(self.b) - self.p, at=self.p)
        r = self.b[self.p:self.p + n]
        self.p += n
        return r

    def left(self):
        return len(self.b) - self.p


def rd_uvari(c):
    b0 = c.take(1, 'uvari')[0]
    if b0 < 0x80:
        return b0
    if b0 < 0xC0:
        b1 = c.take(1, 'uvari')[0]
        return ((b0 & 0x3F) << 8) | b1
    r = c.take(3, 'uvari')
    return ((b0 & 0x3F) << 24) | (r[0] << 16) | (r[1] << 8) | r[2]


def rd_ident(c, what='ident'):
    n = c.take(1, what)[0]
    s = c.take(n, what)
    if any(ch >= 0x80 for ch in s):
        raise DecodeError('decode.non_ascii', what=what, raw=s)
    return s.decode('ascii')


def rd_ascii(c):
    n = rd_uvari(c)
    s = c.take(n, 'ascii')
    if any(ch >= 0x80 for ch in s):
        raise DecodeError('decode.non_ascii', what='ascii', raw=s[:32])
    return s.decode('ascii')


def rd_obname(c):
    o = rd_uvari(c)
    cp = c.take(1, 'obname.copy')[0]
    nm = rd_ident(c, 'obname.ident')
    return (o, cp, nm)


def rd_dtime(c):
    r = c.take(8, 'dtime')
    y, tzm, d, h, mn, s = r[0], r[1], r[2], r[3], r[4], r[5]
    ms = (r[6] << 8) | r[7]
    tz, mo = tzm >> 4, tzm & 0xF
    if tz > 2 or not 1 <= mo <= 12 or not 1 <= d <= 31 or h > 23 or mn > 59 or s > 59 or ms > 999:
        raise DecodeError('decode.dtime_field', raw=r)
    return {'y': 1900 + y, 'tz': tz, 'mo': mo, 'd': d, 'h': h, 'mn': mn, 's': s, 'ms': ms}


def rd_value(code, c):
    """Decode one value of representation code `code`; returns (python value, raw bytes)."""
    p0 = c.p
    if code in _STRUCT:
        raw = c.take(FIXED[code], CODE_NAMES[code])
        v = struct.unpack(_STRUCT[code], raw)[0]
        if code == 26 and v not in (0, 1):
            raise DecodeError('decode.status_value', raw=raw)
    elif code in FIXED:
        raw = c.take(FIXED[code], CODE_NAMES[code])
        v = raw
    elif code in (18, 22):
        v = rd_uvari(c)
    elif code in (19, 27):
        v = rd_ident(c)
    elif code == 20:
        v = rd_ascii(c)
    elif code == 21:
        v = rd_dtime(c)
    elif code == 23:
        v = rd_obname(c)
    elif code == 24:
        t = rd_ident(c, 'objref.type')
        v = (t,) + rd_obname(c)
    elif code == 25:
        t = rd_ident(c, 'attref.type')
        ob = rd_obname(c)
        lab = rd_ident(c, 'attref.label')
        v = (t,) + ob + (lab,)
    else:
        raise DecodeError('decode.undefined_code', code=code)
    return v, c.b[p0:c.p]


class Attr:
    __slots__ = ('label', 'count', 'code', 'units', 'values', 'raws', 'has_value', 'explicit')

    def __init__(self):
        self.label = ''
        self.count = 1
        self.code = 19
        self.units = ''
        self.values = None
        self.raws = None
        self.has_value = False
        self.explicit = 0   # format bits that were explicitly present

    def summary(self):
        return {'label': self.label, 'count': self.count, 'code': self.code, 'units': self.units,
                'values': _j(self.values)}


class Obj:
    __slots__ = ('name', 'attrs', 'order', 'n_components')

    def __init__(self, name):
        self.name = name          # (origin, copy, ident)
        self.attrs = {}           # label -> Attr | None (absent)
        self.order = []           # labels in the order seen
        self.n_components = 0


class SetRec:
    def __init__(self):
        self.role = None
        self.type = None
        self.name = None
        self.template = []        # [Attr]
        self.objects = []         # [Obj]
        self.errors = []
        self.lr_type = None
        self.rec_index = None

    def labels(self):
        return [t.label for t in self.template]


def _rd_attr_fields(c, fmt, base):
    a = Attr()
    if base is not None:
        a.label, a.count, a.code, a.units = base.label, base.count, base.code, base.units
        if base.has_value:
            a.values, a.raws, a.has_value = base.values, base.raws, True
    a.explicit = fmt
    if fmt & 0x10:
        a.label = rd_ident(c, 'attr.label')
    if fmt & 0x08:
        a.count = rd_uvari(c)
    if fmt & 0x04:
        a.code = c.take(1, 'attr.code')[0]
        if a.code not in CODE_NAMES:
            raise DecodeError('decode.undefined_code', code=a.code, label=a.label)
    if fmt & 0x02:
        a.units = rd_ident(c, 'attr.units')
    if fmt & 0x01:
        vals, raws = [], []
        for _ in range(a.count):
            v, r = rd_value(a.code, c)
            vals.append(v)
            raws.append(r)
        a.values, a.raws, a.has_value = vals, raws, True
    elif fmt & 0x0C and base is not None and base.has_value:
        # count or code changed without a new value: the template default no longer applies
        a.values, a.raws, a.has_value = None, None, False
    return a


def parse_eflr(body):
    s = SetRec()
    c = Cur(bytes(body))
    try:
        if c.left() < 1:
            raise DecodeError('eflr.empty_body')
        d = c.take(1, 'set descriptor')[0]
        role, fmt = d >> 5, d & 0x1F
        if role not in (5, 6, 7):
            raise DecodeError('eflr.no_set_component', descriptor=d)
        s.role = role
        if not fmt & 0x10:
            raise DecodeError('eflr.set_without_type', descriptor=d)
        if fmt & 0x07:
            s.errors.append(Err('eflr.set_descriptor_bits', descriptor=d))
        s.type = rd_ident(c, 'set.type')
        if fmt & 0x08:
            s.name = rd_ident(c, 'set.name')
        # template
        while True:
            if c.left() < 1:
                break
            d = c.b[c.p]
            role, fmt = d >> 5, d & 0x1F
            if role == 3:
                break
            c.p += 1
            if role not in (1, 2):
                raise DecodeError('eflr.bad_template_component', descriptor=d, at=c.p - 1)
            a = _rd_attr_fields(c, fmt, None)
            if role == 2:
                a.has_value = False
            s.template.append(a)
        labels = [t.label for t in s.template]
        if any(not lb for lb in labels):
            s.errors.append(Err('eflr.template_empty_label', set=s.type))
        if len(set(labels)) != len(labels):
            s.errors.append(Err('eflr.template_duplicate_label', set=s.type, labels=labels))
        # objects
        while c.left() > 0:
            d = c.take(1, 'object descriptor')[0]
            role, fmt = d >> 5, d & 0x1F
            if role != 3:
                raise DecodeError('eflr.expected_object', descriptor=d, at=c.p - 1)
            if not fmt & 0x10:
                raise DecodeError('eflr.object_without_name', descriptor=d)
            o = Obj(rd_obname(c))
            s.objects.append(o)
            k = 0
            while c.left() > 0:
                d = c.b[c.p]
                role, fmt = d >> 5, d & 0x1F
                if role == 3:
                    break
                c.p += 1
                if k >= len(s.template):
                    raise DecodeError('eflr.more_attributes_than_template', object=o.name, at=c.p - 1)
                base = s.template[k]
                if role == 0:
                    if fmt:
                        s.errors.append(Err('eflr.absent_with_format_bits', descriptor=d, label=base.label))
                    o.attrs[base.label] = None
                elif role == 1:
                    if fmt & 0x10:
                        s.errors.append(Err('eflr.label_in_object_attribute', label=base.label))
                    a = _rd_attr_fields(c, fmt & 0x0F, base)
                    a.label = base.label
                    o.attrs[base.label] = a
                elif role == 2:
                    a = _rd_attr_fields(c, fmt & 0x0F, base)
                    a.label = base.label
                    o.attrs[base.label] = a
                else:
                    raise DecodeError('eflr.bad_object_component', descriptor=d, at=c.p - 1)
                o.order.append(base.label)
                k += 1
            o.n_components = k
            for t in s.template[k:]:
                # omitted trailing attributes take the template default
                o.attrs[t.label] = t if t.has_value else None
        if not s.objects:
            s.errors.append(Err('eflr.set_without_objects', set=s.type))
    except DecodeError as e:
        e.err.detail.setdefault('set', s.type)
        s.errors.append(e.err)
    return s


# --------------------------------------------------------------------------------------
# layers 4+5: whole file

class Frame:
    def __init__(self, name):
        self.name = name
        self.rows = []   # [(frame_number, [raw bytes per channel] or None, raw_rest, rec_index)]


class LogicalFileRec:
    def __init__(self):
        self.header = None         # SetRec
        self.sets = []             # [SetRec] incl. header and origins, in file order
        self.records = []          # [(kind, payload)] in file order: ('set', SetRec) / ('fdata', dict) / ('nofmt', dict)
        self.frames = {}           # frame obname -> Frame
        self.noformat = {}         # obname -> [payload bytes]
        self.errors = []

    def find_sets(self, type_):
        return [s for s in self.sets if s.type == type_]

    def objects(self, type_):
        for s in self.sets:
            if s.type == type_:
                for o in s.objects:
                    yield s, o

    def find_object(self, type_, obname):
        r = [o for s, o in self.objects(type_) if o.name == obname]
        return r


class File:
    def __init__(self):
        self.framing = None
        self.records = []
        self.lfs = []
        self.errors = []     # all errors from every layer, each tagged with layer

    def ok(self):
        return not self.errors

    def rules(self):
        return sorted(set(e.rule for e in self.errors))


def _attr_vals(o, label):
    a = o.attrs.get(label)
    if a is None or not a.has_value:
        return None
    return a.values


def channel_layout(lf, frame_obj):
    """[(channel obname, code, n_elements, elem_size)] or raises DecodeError."""
    chans = _attr_vals(frame_obj, 'CHANNELS')
    if not chans:
        raise DecodeError('iflr.frame_without_channels', frame=frame_obj.name)
    out = []
    for ch in chans:
        if not isinstance(ch, tuple) or len(ch) not in (3, 4):
            raise DecodeError('iflr.channels_not_references', frame=frame_obj.name, value=ch)
        if len(ch) == 4:
            ch = ch[1:]
        found = lf.find_object('CHANNEL', ch)
        if len(found) != 1:
            raise DecodeError('iflr.channel_unresolved', channel=ch, matches=len(found))
        co = found[0]
        rc = _attr_vals(co, 'REPRESENTATION-CODE')
        dim = _attr_vals(co, 'DIMENSION')
        if not rc or len(rc) != 1 or not isinstance(rc[0], int) or rc[0] not in FIXED:
            raise DecodeError('iflr.channel_repcode', channel=ch, value=rc)
        if not dim or not all(isinstance(d, int) and d >= 0 for d in dim):
            raise DecodeError('iflr.channel_dimension', channel=ch, value=dim)
        n = 1
        for d in dim:
            n *= d
        out.append((ch, rc[0], n, FIXED[rc[0]]))
    return out


def decode_file(data):
    """Total function: malformed input never raises; an unexpected exception inside the reader becomes a 'reader.exception' error."""
    try:
        return _decode_file(data)
    except DecodeError as e:
        f = File()
        f.framing = parse_framing(data)
        f.errors.append(e.err)
        return f
    except Exception as e:      # pragma: no cover - defensive
        f = File()
        f.framing = parse_framing(data)
        f.errors.append(Err('reader.exception', exc=repr(e)))
        return f


def _decode_file(data):
    f = File()
    fr = parse_framing(data)
    f.framing = fr
    f.errors.extend(fr.errors)
    recs, errs = reassemble(fr)
    f.records = recs
    f.errors.extend(errs)
    lf = None
    layouts = {}
    for ri, r in enumerate(recs):
        if r.is_eflr:
            s = parse_eflr(r.body)
            s.lr_type = r.type
            s.rec_index = ri
            f.errors.extend(s.errors)
            if s.type in SET_LR_TYPE and SET_LR_TYPE[s.type] != r.type:
                f.errors.append(Err('eflr.record_type_vs_set', set=s.type, type=r.type, want=SET_LR_TYPE[s.type], rec=ri))
            if s.type == 'FILE-HEADER' or lf is None:
                if s.type != 'FILE-HEADER':
                    f.errors.append(Err('file.no_header_first', first=s.type))
                lf = LogicalFileRec()
                f.lfs.append(lf)
                layouts = {}
                if s.type == 'FILE-HEADER':
                    lf.header = s
            lf.sets.append(s)
            lf.records.append(('set', s))
        else:
            if lf is None:
                f.errors.append(Err('file.iflr_before_header', rec=ri))
                lf = LogicalFileRec()
                f.lfs.append(lf)
                layouts = {}
            c = Cur(r.body)
            try:
                ob = rd_obname(c)
            except DecodeError as e:
                f.errors.append(e.err)
                lf.records.append(('bad_iflr', {'rec': ri}))
                continue
            if r.type == 0:
                try:
                    fno = rd_uvari(c)
                except DecodeError as e:
                    f.errors.append(e.err)
                    continue
                rest = r.body[c.p:]
                frm = lf.frames.get(ob)
                if frm is None:
                    frm = lf.frames[ob] = Frame(ob)
                slots = None
                fo = lf.find_object('FRAME', ob)
                if len(fo) != 1:
                    f.errors.append(Err('iflr.frame_ref_unresolved', frame=ob, matches=len(fo), rec=ri))
                else:
                    try:
                        if ob not in layouts:
                            layouts[ob] = channel_layout(lf, fo[0])
                        lay = layouts[ob]
                        if lay is None:
                            raise KeyError(ob)          # layout already reported as unusable
                        need = sum(n * sz for _, _, n, sz in lay)
                        if need != len(rest):
                            f.errors.append(Err('iflr.fdata_length', frame=ob, number=fno, need=need, got=len(rest)))
                        else:
                            slots, p = [], 0
                            for _, code, n, sz in lay:
                                slots.append(rest[p:p + n * sz])
                                p += n * sz
                    except KeyError:
                        pass
                    except DecodeError as e:
                        e.err.detail['rec'] = ri
                        f.errors.append(e.err)
                        layouts[ob] = None
                frm.rows.append((fno, slots, rest, ri))
                lf.records.append(('fdata', {'frame': ob, 'number': fno, 'rec': ri, 'head_len': c.p, 'len': len(r.body)}))
            elif r.type == 1:
                payload = r.body[c.p:]
                nf = lf.find_object('NO-FORMAT', ob)
                if len(nf) != 1:
                    f.errors.append(Err('iflr.noformat_ref_unresolved', obj=ob, matches=len(nf), rec=ri))
                lf.noformat.setdefault(ob, []).append(payload)
                lf.records.append(('nofmt', {'obj': ob, 'payload': payload, 'rec': ri}))
            else:
                f.errors.append(Err('iflr.unknown_type', type=r.type, rec=ri))
                lf.records.append(('iflr?', {'rec': ri}))
    return f


# RP66 V1 Appendix A: the logical record type (segment header) under which each set type is written
SET_LR_TYPE = {'FILE-HEADER': 0, 'ORIGIN': 1, 'WELL-REFERENCE': 1, 'AXIS': 2, 'CHANNEL': 3, 'FRAME': 4, 'PATH': 4,
               'CALIBRATION': 5, 'CALIBRATION-COEFFICIENT': 5, 'CALIBRATION-MEASUREMENT': 5, 'COMPUTATION': 5, 'EQUIPMENT': 5,
               'GROUP': 5, 'PARAMETER': 5, 'PROCESS': 5, 'SPLICE': 5, 'TOOL': 5, 'ZONE': 5, 'COMMENT': 6, 'MESSAGE': 6,
               'UPDATE': 7, 'NO-FORMAT': 8, 'LONG-NAME': 9}


def summarize(f):
    """Small JSON-able summary of a decoded file (for replay files / diagnostics)."""
    out = {'size': f.framing.size, 'n_vr': len(f.framing.vrs), 'n_seg': len(f.framing.segs), 'n_rec': len(f.records),
           'errors': [e.to_json() for e in f.errors[:10]], 'lfs': []}
    for lf in f.lfs:
        out['lfs'].append({
            'sets': [[s.type, s.name, [list(o.name) for o in s.objects]] for s in lf.sets],
            'frames': {str(k): len(v.rows) for k, v in lf.frames.items()},
            'noformat': {str(k): [len(p) for p in v] for k, v in lf.noformat.items()},
        })
    return out
