"""ddmin over the op list of a case, then per-op and environment simplification.

A candidate is accepted only if `pred(case)` still reports the same (property, rule).
Ops whose handles disappeared are skipped by the executor, so no dependency repair is needed.
"""
import copy
import time


def _paths(history, prefix=()):
    out = []
    for i, op in enumerate(history):
        p = prefix + (i,)
        out.append(p)
        if op.get('op') == 'hc_block':
            out.extend(_paths(op.get('body', []), p))
    return out


def _remove(history, paths):
    """Remove ops at `paths` (set of tuples) from a deep-copied history."""
    def rec(h, prefix):
        res = []
        for i, op in enumerate(h):
            p = prefix + (i,)
            if p in paths:
                continue
            op = dict(op)
            if op.get('op') == 'hc_block':
                op['body'] = rec(op.get('body', []), p)
            res.append(op)
        return res
    return rec(history, ())


def _get(history, path):
    op = history[path[0]]
    for i in path[1:]:
        op = op['body'][i]
    return op


class Budget:
    def __init__(self, max_evals, max_s):
        self.evals = 0
        self.max_evals = max_evals
        self.deadline = time.monotonic() + max_s

    def ok(self):
        return self.evals < self.max_evals and time.monotonic() < self.deadline


def shrink(case, pred, max_evals=250, max_s=90, hist_keys=('history',)):
    """Return a smaller case for which pred still holds. `pred(case) -> bool` (must hold for the input)."""
    bud = Budget(max_evals, max_s)

    def test(c):
        bud.evals += 1
        try:
            return bool(pred(c))
        except Exception:
            return False

    best = copy.deepcopy(case)
    for hk in hist_keys:
        sc = best['scenario']
        if hk not in sc:
            continue
        # ---- ddmin over op paths
        paths = _paths(sc[hk])
        n = 2
        while len(paths) >= 2 and bud.ok():
            chunk = max(len(paths) // n, 1)
            subsets = [paths[i:i + chunk] for i in range(0, len(paths), chunk)]
            reduced = False
            for sub in subsets:
                if not bud.ok():
                    break
                cand = copy.deepcopy(best)
                cand['scenario'][hk] = _remove(best['scenario'][hk], set(sub))
                if test(cand):
                    best = cand
                    paths = _paths(best['scenario'][hk])
                    n = max(n - 1, 2)
                    reduced = True
                    break
            if not reduced:
                if chunk == 1:
                    break
                n = min(n * 2, len(paths))
        # ---- per-op simplification: drop kwargs, faults, optional fields
        changed = True
        rounds = 0
        while changed and bud.ok() and rounds < 3:
            changed = False
            rounds += 1
            for p in _paths(best['scenario'][hk]):
                op = _get(best['scenario'][hk], p)
                for key in list((op.get('kwargs') or {}).keys()):
                    if not bud.ok():
                        break
                    if key in ('channels',):
                        continue
                    cand = copy.deepcopy(best)
                    del _get(cand['scenario'][hk], p)['kwargs'][key]
                    if test(cand):
                        best = cand
                        changed = True
                for key in ('prior', 'from_idx', 'to_idx', 'input_chunk_size', 'path_kind', 'propagate'):
                    if key in op and bud.ok():
                        cand = copy.deepcopy(best)
                        del _get(cand['scenario'][hk], p)[key]
                        if test(cand):
                            best = cand
                            changed = True
                fl = op.get('faults') or []
                for k in range(len(fl) - 1, -1, -1):
                    if not bud.ok():
                        break
                    cand = copy.deepcopy(best)
                    del _get(cand['scenario'][hk], p)['faults'][k]
                    if test(cand):
                        best = cand
                        changed = True
    # ---- rows: shrink every array recipe to fewer rows
    for rows in (1, 2, 3, 5, 8):
        if not bud.ok():
            break
        cand = copy.deepcopy(best)
        if _set_rows(cand['scenario'], rows) and test(cand):
            best = cand
            break
    # ---- environment
    env = best['scenario'].get('env') or {}
    if env.get('tz') not in (None, 'UTC') and bud.ok():
        cand = copy.deepcopy(best)
        cand['scenario']['env']['tz'] = 'UTC'
        if test(cand):
            best = cand
    best.setdefault('shrink', {})['evals'] = bud.evals
    return best


def _set_rows(node, rows):
    hit = False
    if isinstance(node, dict):
        if '$arr' in node and isinstance(node['$arr'], dict):
            rc = node['$arr']
            if rc.get('shape') and rc['shape'][0] > rows and rc.get('rows', 10 ** 9) > rows:
                rc['rows'] = rows
                hit = True
        elif 'dtype' in node and 'shape' in node and isinstance(node.get('shape'), list):
            if node['shape'] and node['shape'][0] > rows and node.get('rows', 10 ** 9) > rows:
                node['rows'] = rows
                hit = True
        for v in node.values():
            hit = _set_rows(v, rows) or hit
    elif isinstance(node, list):
        for v in node:
            hit = _set_rows(v, rows) or hit
    return hit


def count_ops(history):
    return len(_paths(history))
