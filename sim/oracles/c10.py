"""C10 - chunk sizes are invisible; the file on disk only ever grows by whole records.

Dimension: output/input chunk configuration x every I/O event (crash point) x prior content x torn writes x
real crash + restart over the torn file.  Oracle: byte identity with the one-chunk reference; every on-disk state
after a write/close event is a prefix of the final file ending on the SUL or a visible-record boundary.
"""
from .. import gen, rp66
from . import common as C

ID = 'C10'
LEVEL = 'fault_enumeration'
LEVEL_TEXT = ('fault enumeration: for every explored run every I/O event (open/write/close) is a checked crash point, '
              'torn writes and real process crash + restart are injected at seeded events; sampling over specifications '
              'and chunk configurations. Right level because the property quantifies over crash points and configurations.')
LEVEL_NOTE = ('trusted: SimFile proxy = the OS (process death, page cache survives; no power loss), strict framing parser '
              'sim/rp66.py; bounds: files <= ~64 kB, <= 4 configurations per specification')
TIERS = {'quick': {'cases': 1200, 'wall': 60}, 'thorough': {'cases': 400000, 'wall': 840}}
RULE = ('case = seeded valid specification (1-3 logical files, frames, no-format data; record length biased to 32..256) '
        'written under 3-4 (input chunk, output chunk, prior content) configurations, each in its own fork, plus torn '
        'writes and a real crash+restart; every open/write/close event of every write is a checked crash point. '
        'non-trivial = a configuration produced >= 2 physical writes after the label (a mid-stream flush happened); '
        'distinct = distinct digest of (specification, configurations)')
ASSUMPTIONS = ['SimFile performs each write() of the library as one unbuffered write; a crash is process death, '
               'the page cache survives']


def big_frame_case(rng, sizes=(70, 140)):
    """Directed (about 3 per quick run at 70 MiB, about 1 in 1500 thorough cases at 70 / 140 MiB): one frame holding more than 64 MiB / 128 MiB of data - quantities a quick case never reaches -
    written with the default input chunk (None) and with explicit ones: the bytes must not differ."""
    spec = gen.Spec(rng)
    spec.new_file(mrl=16384)
    lfi = spec.logical_file()
    spec.origin(lfi)
    width = rng.choice([1024, 2048])
    rows = (rng.choice(list(sizes)) * (1 << 20)) // (width * 8) + rng.randint(1, 50)
    c0 = spec.channel(lfi, 'DEPTH', {'dtype': '<f8', 'shape': [rows], 'kind': 'ramp', 'start': 0, 'step': 1})
    c1 = spec.channel(lfi, 'IMG', {'dtype': '<f8', 'shape': [rows, width], 'kind': 'rand', 'seed': rng.randrange(1 << 30)})
    spec.frame(lfi, 'BIG', [c0, c1])
    configs = [{'ics': rng.choice([1000, rows // 2 + 1, rows]), 'ocs': ['abs', 1 << 24]}]
    return {'scenario': {'env': {'tz': 'UTC', 'run_cap_s': 300}, 'history': spec.ops},
            'params': {'configs': configs, 'torn': [], 'source': 'inline', 'big': True, 'ref_ocs': 1 << 24}}


def gen_case(rng, tier, avoid):
    if rng.random() < (1 / 1500.0 if tier == 'thorough' else 1 / 400.0):
        return big_frame_case(rng) if tier == 'thorough' else big_frame_case(rng, sizes=(70,))
    n_lf = rng.choice([1, 1, 1, 2, 3])
    spec = gen.simple_file(rng, n_lf=n_lf, max_width=10)
    rows = gen.max_rows(spec)
    ops, data = spec.ops, None
    src = gen.pick(rng, ['inline', 'inline', 'inline', 'dict', 'h5', 'struct', 'struct'])
    if src != 'inline':
        plain = src == 'struct' and rng.random() < 0.7      # field names/order == channel list: the zero-copy fast path
        ops, data = gen.externalize(spec.ops, src, rng, extras=not plain, permute=not plain, rename=not plain)
    ocs_pool = C.sym_ocs_choices(rng)
    ics_pool = gen.ics_choices(rng, rows)
    configs = []
    for k in range(rng.choice([3, 3, 4])):
        cfg = {'ics': gen.pick(rng, ics_pool), 'ocs': gen.pick(rng, ocs_pool[:8] if rng.random() < 0.8 else ocs_pool)}
        r = rng.random()
        if r < 0.15:
            cfg['prior'] = {'n': rng.randint(1, 4000), 'seed': rng.randrange(1 << 20)}
        elif r < 0.22:
            cfg['prior'] = {'hex': ''}
        elif r < 0.3:
            cfg['prior'] = {'kind': 'self', 'extra': rng.choice([0, 0, 7, 64])}     # a longer/identical earlier copy
        if rng.random() < 0.2:
            cfg['path_kind'] = rng.choice(['Path', 'Path', 'relative', 'relative_Path'])
        configs.append(cfg)
    if tier == 'thorough' and rng.random() < 1 / 2500.0:
        # directed: the documented default output chunk (2**32: two 4 GiB buffers are allocated and zeroed, 20-60 s)
        configs = [{'ics': None, 'ocs': ['default', 0]}]
    params = {'configs': configs, 'torn': [[rng.random(), rng.random()] for _ in range(rng.choice([0, 1, 2]))]}
    if rng.random() < 0.3:
        params['crash'] = [rng.random(), rng.choice([None, None, rng.random()])]
    minrows = min([(op['kwargs'].get('data') or {}).get('$arr', {}).get('shape', [rows])[0] for op in spec.ops
                   if op.get('op') == 'add' and op.get('kind') == 'channel'] or [rows])
    if rng.random() < 0.3 and minrows > 1:
        rows = minrows
        # a row window: the chunk arithmetic then works on the windowed row count (the window is part of what is written,
        # so the reference is written with the same window)
        a = rng.randint(0, rows - 1)
        params['window'] = {'from_idx': a}
        if rng.random() < 0.7:
            params['window']['to_idx'] = rng.randint(a + 1, rows)
        for cfg in configs:
            n = (params['window'].get('to_idx') or rows) - a
            cfg['ics'] = gen.pick(rng, gen.ics_choices(rng, n))
    if data:
        params['data'] = data
    params['source'] = src if not data else data['kind']
    if rng.random() < 0.4 and configs[0]['ocs'][0] != 'default':
        # the same configurations once more as ONE process history (distinct target paths), optionally with a failed attempt
        # (I/O error at a seeded event of a flush) in between: what one write buffers must not reach the next
        seq = {'order': [rng.random() for _ in configs], 'fault': None}
        if rng.random() < 0.6:
            fk = rng.choice(['write_fail', 'write_fail', 'close_fail', 'open_fail'])
            flush = rng.choice([0, 1, 1, 2, 3, 5])
            seq['fault'] = {'kind': fk, 'at_event': 3 * flush + {'open_fail': 0, 'write_fail': 1, 'close_fail': 2}[fk],
                            'partial': rng.choice([0, 0, 13, 100]), 'errno': rng.choice([5, 28]), 'lose': 0,
                            'before': rng.randrange(len(configs)), 'cfg': rng.randrange(len(configs))}
        params['sequence'] = seq
    return {'scenario': {'env': {'tz': 'UTC'}, 'history': ops}, 'params': params}


def _fp(cfg, rows, extra=None):
    fp = {'ics': C.ics_class(cfg.get('ics'), rows), 'ocs': C.ocs_class(cfg['ocs']),
          'prior': 'none' if 'prior' not in cfg else ('self' if cfg['prior'].get('kind') == 'self' else
                                                      ('empty' if cfg['prior'].get('hex') == '' else 'garbage'))}
    if extra:
        fp.update(extra)
    return fp


def check_case(case, ex):
    hist = case['scenario']['history']
    P = case['params']
    fid, mrl, rows = C.fid_of(hist), C.mrl_of(hist), C.rows_of(hist)
    out = []
    stats = {'execs': 0, 'probes': {}, 'faults': {}, 'state_sigs': [], 'digest': C.digest([hist, P]), 'seams': {}}
    pr = stats['probes']

    def bump(d, k, n=1):
        d[k] = d.get(k, 0) + n

    def wop(**kw):
        op = {'op': 'write', 'fid': fid, 'path': 'out.dlis'}
        if P.get('data'):
            op['data'] = P['data']
        if P.get('window'):
            op.update(P['window'])
        op.update(kw)
        return op
    bump(pr, 'source_' + str(P.get('source', 'inline')))
    if P.get('data'):
        # row count of externalised data
        rows = max([rc['shape'][0] for _, rc in (P['data'].get('arrays') or P['data'].get('fields') or P['data'].get('datasets') or [])] or [rows])

    ref = ex(C.scenario_with(case, [wop(output_chunk_size=P.get('ref_ocs', 1 << 20))]))
    stats['execs'] += 1
    stats['seams'].update(ref['seams'])
    rw = C.last_write(ref)
    if rw is None or rw['out'] != 'ok' or rw.get('file') is None:
        bump(pr, 'valid_spec_rejected' if C.rejected_for_size(rw) else 'reference_write_failed')
        return {'violations': out, 'stats': stats}
    R = rw['file']
    fr = rp66.parse_framing(R)
    bounds = fr.boundaries()
    nontrivial = False

    def check_events(st, final, cfg, what):
        last = None
        for ev in st.get('io') or []:
            if ev['size'] is None:
                continue
            bump(stats['faults'], 'crash_points_checked')
            torn = ev.get('raised') and ev['k'] == 'write' and 0 < ev['w'] < ev['n']
            if ev.get('prefix') is False:
                out.append(C.V('C10.not_prefix', _fp(cfg, rows, {'event': ev['k'], 'what': what}),
                               event=ev['i'], size=ev['size'], snap=ev.get('snap')))
                return
            if ev['k'] in ('write', 'close') and not torn and not ev.get('raised'):
                if ev['size'] not in bounds and final == R:
                    out.append(C.V('C10.not_on_vr_boundary', _fp(cfg, rows, {'event': ev['k'], 'what': what}),
                                   event=ev['i'], size=ev['size'], mode=ev['mode']))
                    return
            last = ev

    def cfg_kw(cfg):
        if cfg['ocs'][0] == 'default':
            ocs, kw = None, {'default_ocs': True}
        else:
            ocs = C.resolve_ocs(cfg['ocs'], mrl, len(R))
            kw = {'output_chunk_size': ocs}
        if cfg.get('ics') is not None:
            kw['input_chunk_size'] = cfg['ics']
        if 'prior' in cfg:
            if cfg['prior'].get('kind') == 'self':
                kw['prior'] = {'hex': (R + b'\x00' * cfg['prior'].get('extra', 0)).hex()}
            else:
                kw['prior'] = cfg['prior']
        if cfg.get('path_kind'):
            kw['path_kind'] = cfg['path_kind']
        return ocs, kw

    for cfg in P['configs']:
        ocs, kw = cfg_kw(cfg)
        if cfg['ocs'][0] == 'default':
            case = dict(case, scenario=dict(case['scenario'], env=dict(case['scenario'].get('env') or {}, run_cap_s=300)))
            bump(pr, 'default_output_chunk_4GiB')
        if 'prior' in cfg:
            bump(stats['faults'], 'prior_content')
        res = ex(C.scenario_with(case, [wop(**kw)]))
        stats['execs'] += 1
        st = C.last_write(res)
        nfl = C.n_flushes(st.get('io'))
        if nfl >= 3:
            nontrivial = True
            bump(pr, 'flush_mid_record_stream')
        bump(pr, 'ocs_' + C.ocs_class(cfg['ocs']).split('+')[0].split('-')[0])
        bump(pr, 'ics_' + C.ics_class(cfg.get('ics'), rows))
        stats['state_sigs'].append('%s|%s|fl%d|vr%d|%s' % (C.ics_class(cfg.get('ics'), rows), C.ocs_class(cfg['ocs']),
                                                           min(nfl, 9), min(len(fr.vrs) // 8, 9), 'prior' in cfg))
        if st['out'] != 'ok':
            out.append(C.V('C10.config_rejected', _fp(cfg, rows), exc=st.get('exc'), msg=st.get('msg'), ocs=ocs))
            continue
        F = st.get('file')
        if F != R:
            rule = 'C10.prior_content_survives' if 'prior' in cfg and F is not None and len(F) != len(R) and \
                F[:len(R)] == R else 'C10.bytes_differ_across_chunks'
            d = next((i for i in range(min(len(F or b''), len(R))) if F[i] != R[i]), min(len(F or b''), len(R)))
            out.append(C.V(rule, _fp(cfg, rows), first_diff=d, len_ref=len(R), len_got=len(F or b''), ocs=ocs,
                           ics=cfg.get('ics')))
        if st.get('reported') is not None and F is not None and st['reported'] != len(F):
            out.append(C.V('C10.size_vs_reported', _fp(cfg, rows), reported=st['reported'], actual=len(F)))
        check_events(st, F, cfg, 'write')
        io = st.get('io') or []
        # torn writes at sampled (event, offset): the on-disk content stays a prefix of the reference
        wevs = [e for e in io if e['k'] == 'write' and e['n'] > 1]
        for a, b in (P.get('torn') or []):
            if not wevs or cfg is not P['configs'][0]:
                break
            e = wevs[int(a * len(wevs)) % len(wevs)]
            part = 1 + int(b * (e['n'] - 1)) % (e['n'] - 1)
            kw2 = dict(kw)
            kw2['faults'] = [{'kind': 'write_fail', 'at_event': e['i'], 'partial': part}]
            res2 = ex(C.scenario_with(case, [wop(**kw2)]))
            stats['execs'] += 1
            st2 = C.last_write(res2)
            if 'write_fail' in (st2.get('faults_fired') or []):
                bump(stats['faults'], 'torn_write')
                T = st2.get('file') or b''
                if R[:len(T)] != T:
                    out.append(C.V('C10.not_prefix', _fp(cfg, rows, {'event': 'torn', 'what': 'torn'}),
                                   event=e['i'], partial=part, size=len(T)))
                if st2['out'] == 'ok':
                    out.append(C.V('C10.write_error_swallowed', _fp(cfg, rows), event=e['i']))
            # the same event as a SHORT write of a raw file (no error, the count is the return value): fires only if the writer
            # opened the file unbuffered; then a normal return must still have produced the whole file
            kw5 = dict(kw)
            kw5['faults'] = [{'kind': 'short_write', 'at_event': e['i'], 'partial': part}]
            res5 = ex(C.scenario_with(case, [wop(**kw5)]))
            stats['execs'] += 1
            st5 = C.last_write(res5)
            if st5 is not None and 'short_write' in (st5.get('faults_fired') or []):
                bump(stats['faults'], 'short_write')
                if st5['out'] == 'ok' and st5.get('file') != R:
                    out.append(C.V('C10.size_vs_reported', _fp(cfg, rows, {'what': 'short_write'}), event=e['i'],
                                   reported=st5.get('reported'), actual=len(st5.get('file') or b'')))
            else:
                bump(pr, 'short_write_not_applicable_buffered_file')
        # real crash + restart: the new process writes over the torn file
        if P.get('crash') and cfg is P['configs'][0] and io:
            a, b = P['crash']
            e = io[int(a * len(io)) % len(io)]
            flt = {'kind': 'crash', 'at_event': e['i']}
            if b is not None and e['k'] == 'write' and e['n'] > 1:
                flt['partial'] = 1 + int(b * (e['n'] - 1)) % (e['n'] - 1)
            kw3 = dict(kw)
            kw3['faults'] = [flt]
            h2 = [wop(**kw3), {'op': 'restart'}] + list(hist) + [wop(output_chunk_size=ocs, keep_existing=True)]
            res3 = ex(C.scenario_with(case, h2))
            stats['execs'] += 1
            steps = [s for s in res3['steps'] if s]
            crashed = any(s.get('out') == 'crash' for s in steps)
            st3 = C.last_write(res3)
            if crashed and res3['segments'] == 2 and st3 is not None:
                bump(stats['faults'], 'crash_restart')
                if st3['out'] != 'ok' or st3.get('file') != R:
                    out.append(C.V('C10.prior_content_survives', _fp(cfg, rows, {'what': 'restart_over_torn_file'}),
                                   outcome=st3['out'], len_got=len(st3.get('file') or b''), len_ref=len(R),
                                   torn_size=st3.get('prior_size')))
                check_events(st3, st3.get('file'), cfg, 'restart')
    seq = P.get('sequence')
    if seq and all(c['ocs'][0] != 'default' for c in P['configs']):
        order = sorted(range(len(P['configs'])), key=lambda j: (seq['order'][j] if j < len(seq['order']) else 0, j))
        sops, scfg = [], []
        flt = seq.get('fault')
        for n, j in enumerate(order):
            cfg = P['configs'][j]
            if flt and flt.get('before', 0) % len(order) == n:
                fc = P['configs'][flt.get('cfg', 0) % len(P['configs'])]
                f1 = {k: v for k, v in flt.items() if k not in ('before', 'cfg')}
                sops.append(wop(path='seq_failed.dlis', faults=[f1], **cfg_kw(fc)[1]))
                scfg.append(fc)
            sops.append(wop(path='seq%d.dlis' % n, **cfg_kw(cfg)[1]))
            scfg.append(cfg)
        res4 = ex(C.scenario_with(case, sops))
        stats['execs'] += 1
        bump(pr, 'same_process_sequence')
        failed_before = False
        for op4, cfg, st4 in zip(sops, scfg, res4['steps'][-len(sops):]):
            if st4 is None or st4.get('out') == 'skip':
                continue
            if op4.get('faults') and st4.get('faults_fired'):
                for fk in st4['faults_fired']:
                    bump(stats['faults'], fk + '_before_next_write')
                failed_before = True
                continue
            extra = {'what': 'same_process_sequence', 'after_failed_attempt': failed_before}
            if st4['out'] != 'ok':
                out.append(C.V('C10.config_rejected', _fp(cfg, rows, extra), exc=st4.get('exc'), msg=st4.get('msg')))
            elif st4.get('file') != R:
                F4 = st4.get('file') or b''
                d = next((i for i in range(min(len(F4), len(R))) if F4[i] != R[i]), min(len(F4), len(R)))
                out.append(C.V('C10.bytes_differ_across_chunks', _fp(cfg, rows, extra), first_diff=d, len_ref=len(R),
                               len_got=len(F4)))
            else:
                check_events(st4, st4.get('file'), cfg, 'sequence')
        nontrivial = True
    stats['nontrivial'] = nontrivial
    return {'violations': out, 'stats': stats}
