"""C12 - fail-closed: a write either raises or yields a faithful, well-formed file.

Dimension: (A) faults - open/write/close errors at every I/O event, HDF5 read errors and truncated HDF5 files, interrupts at
seeded lines: a swallowed error would let write() return normally over a damaged file; (B) the fringe of the input space
(fault-free): unequal row counts, unsupported dtypes, >2-D, missing datasets, over-long / non-ASCII text, out-of-range
integers, missing origin/channels/frames, empty value lists.
Oracle: write() returned normally  =>  the file passes every layer of the strict reader and equals the specification
(conjunction of the content oracles).  write() raised => nothing further is required here.
"""
import copy
from .. import gen, genmeta, rp66, invariants as I, model as M
from . import common as C

ID = 'C12'
LEVEL = 'fault_enumeration'
LEVEL_TEXT = ('fault enumeration (profile A): every I/O event of a fault-free run is faulted with open/write/close errors '
              '(thorough, stratified to 400 plans per case when a run has more; seeded sample in quick) plus seeded HDF5 read errors and interrupts; exploration (profile B): 16 classes '
              'of invalid / degenerate input combined with otherwise valid content; in both, a normal return is checked against the '
              'full conjunction of content oracles')
LEVEL_NOTE = ('trusted: sim/rp66.py, sim/expect.py, sim/schema.py; a fault that did not fire makes the run count as fault-free; '
              'fault-free and fault-injecting profiles are separate cases so that the relaxation under faults hides no ordinary bug')
TIERS = {'quick': {'cases': 1800, 'wall': 45, 'faults_per_case': 6}, 'thorough': {'cases': 150000, 'wall': 840, 'faults_per_case': 400}}
RULE = ('case = profile A: valid specification, written once per enumerated fault; profile B: specification with one fringe defect; '
        'non-trivial = a fault fired or the fringe input was actually accepted by the builder (so that write() had to decide); '
        'distinct = case digest')
FRINGE = ['rows_unequal_1', 'rows_unequal_longer', 'rows_unequal_shorter', 'dtype_int64', 'dtype_float16', 'dtype_bool', 'ndim3',
          'missing_dataset', 'long_name_300', 'long_units', 'non_ascii_text', 'non_ascii_name', 'uvari_out_of_range',
          'unorm_out_of_range', 'no_origin', 'no_frames', 'empty_list', 'header_id_66', 'header_id_66_later', 'slong_out_of_range', 'empty_coordinates',
          'window_past_end', 'window_empty', 'window_to_past_end', 'window_negative_from', 'chunk_nonpositive', 'copy_number_256', 'origin_reference_2p30', 'record_length_odd', 'sul_sequence_10000']


def gen_case(rng, tier, avoid):
    profile = rng.choice(['A', 'A', 'B', 'B', 'C'])
    spec = gen.Spec(rng)
    gen.simple_file(rng, spec=spec, mrl=gen.record_length(rng, small=0.4), n_lf=1, max_width=4, frames=rng.choice([1, 2]))
    lfi = spec.lfs[0]
    genmeta.populate(spec, lfi, rng, n=rng.choice([0, 2, 5]), p_attr=0.4)
    ops = spec.ops
    params = {'profile': profile, 'pick': [rng.random() for _ in range(16)], 'n_faults': TIERS[tier]['faults_per_case'],
              'ocs': gen.pick(rng, [['mrl', 0], ['mrl', 120], ['abs', 1 << 20]])}
    kind = 'inline'
    data = None
    if profile == 'A':
        kind = gen.pick(rng, ['inline', 'inline', 'dict', 'h5'])
        if kind != 'inline':
            ops, data = gen.externalize(ops, kind, rng)
    elif profile == 'C':
        # calls that are rejected (and caught by the user) before the write: the file must still equal the specification
        from . import c20
        params['fringe'] = 'rejected_calls'
        for n in range(rng.choice([1, 2, 3])):
            k = gen.pick(rng, c20.BAD_KINDS + ['schema'] * 4 + ['channel_with_data'] * 2)
            if k == 'schema':
                sb = c20.schema_bad(rng, lfi, n)
                bop = sb[0] if sb else c20.bad_op(rng, 'bad_enum', lfi, spec, n)[0]
            elif k == 'channel_with_data':
                bop = c20.bad_channel_with_data(rng, lfi, n)
            else:
                bop = c20.bad_op(rng, k, lfi, spec, n)[0]
            pos = rng.randint(3, len(ops))
            ops.insert(pos, bop)
            if bop['kind'] not in ('frame',) and isinstance(bop.get('name'), str) and rng.random() < 0.6:
                # the user adds the object again, correctly
                good = {'op': 'add', 'lf': lfi['lf'], 'kind': bop['kind'], 'h': 'redo%d' % n, 'name': bop['name'], 'kwargs': {}}
                if bop['kind'] != 'channel':
                    ops.insert(rng.randint(pos + 1, len(ops)), good)
    else:
        fr = gen.pick(rng, [f for f in FRINGE if f not in avoid])
        params['fringe'] = fr
        chans = [op for op in ops if op.get('op') == 'add' and op['kind'] == 'channel']
        c0 = chans[-1]
        rc = c0['kwargs']['data']['$arr']
        if fr == 'rows_unequal_1':
            rc['shape'][0] = 1
        elif fr == 'rows_unequal_longer':
            rc['shape'][0] += 3
        elif fr == 'rows_unequal_shorter':
            rc['shape'][0] = max(rc['shape'][0] - 1, 1)
            params['maybe_equal'] = True
        elif fr == 'dtype_int64':
            c0['kwargs']['data'] = {'$arr': {'dtype': '<i8', 'shape': rc['shape'], 'kind': 'rand', 'seed': 1}}
        elif fr == 'dtype_float16':
            c0['kwargs']['data'] = {'$arr': {'dtype': '<f2', 'shape': rc['shape'], 'kind': 'rand', 'seed': 1}}
        elif fr == 'dtype_bool':
            c0['kwargs']['data'] = {'$arr': {'dtype': '|b1', 'shape': rc['shape'], 'kind': 'vals', 'vals': [1] * _n(rc['shape'])}}
        elif fr == 'ndim3':
            c0['kwargs']['data'] = {'$arr': {'dtype': '<f4', 'shape': [rc['shape'][0], 2, 2], 'kind': 'rand', 'seed': 1}}
        elif fr == 'missing_dataset':
            del c0['kwargs']['data']
        elif fr == 'long_name_300':
            tgt = gen.pick(rng, [op for op in ops if op.get('op') == 'add'])
            tgt['name'] = 'N' * rng.choice([256, 300])
        elif fr == 'long_units':
            c0['kwargs']['units'] = 'u' * rng.choice([256, 400])
        elif fr == 'non_ascii_text':
            ops.append({'op': 'add', 'lf': lfi['lf'], 'kind': 'comment', 'h': 'fringe1', 'name': 'CMT', 'kwargs': {'text': ['café']}})
        elif fr == 'non_ascii_name':
            ops.append({'op': 'add', 'lf': lfi['lf'], 'kind': 'zone', 'h': 'fringe1', 'name': 'ZøNE', 'kwargs': {}})
        elif fr == 'uvari_out_of_range':
            for op in ops:
                if op.get('kind') == 'origin':
                    op['kwargs']['file_number'] = rng.choice([2 ** 30, 2 ** 31, -1])
        elif fr == 'unorm_out_of_range':
            for op in ops:
                if op.get('kind') == 'origin':
                    op['kwargs']['run_number'] = rng.choice([65536, -1, 10 ** 6])
        elif fr == 'slong_out_of_range':
            ops.append({'op': 'add', 'lf': lfi['lf'], 'kind': 'calibration_measurement', 'h': 'fringe1', 'name': 'CM',
                        'kwargs': {'sample_count': rng.choice([2 ** 31, -2 ** 31 - 1, 10 ** 12])}})
        elif fr == 'no_origin':
            ops[:] = [op for op in ops if op.get('kind') != 'origin']
        elif fr == 'no_frames':
            ops[:] = [op for op in ops if op.get('kind') != 'frame']
        elif fr == 'empty_list':
            ops.append({'op': 'add', 'lf': lfi['lf'], 'kind': rng.choice(['comment', 'message']), 'h': 'fringe1', 'name': 'E',
                        'kwargs': {'text': []}})
        elif fr == 'empty_coordinates':
            ops.append({'op': 'add', 'lf': lfi['lf'], 'kind': 'axis', 'h': 'fringe1', 'name': 'AX', 'kwargs': {'coordinates': []}})
        elif fr == 'header_id_66_later':
            # the identifier becomes too long for its 65-character field by assignment AFTER the logical file was created
            nid = 'H' * rng.choice([66, 70, 130])
            o1 = next(op for op in ops if op.get('op') == 'add' and op['kind'] == 'origin')
            ops += [{'op': 'set_fh', 'lf': lfi['lf'], 'prop': 'header_id', 'v': nid},
                    {'op': 'set', 'h': o1['h'], 'attr': 'file_id', 'part': 'value', 'v': nid}]
        elif fr == 'window_past_end':
            params['window'] = {'from_idx': rc['shape'][0] + rng.choice([0, 1, 5])}
        elif fr == 'window_empty':
            params['window'] = {'from_idx': 1, 'to_idx': rng.choice([1, 0])}
        elif fr == 'window_to_past_end':
            # the end index reaches beyond the data (by one or more), the start is valid - down to the very last row
            n = rc['shape'][0]
            params['window'] = {'from_idx': rng.choice([0, max(n - 1, 0), max(n - 2, 0), rng.randint(0, max(n - 1, 0))]),
                                'to_idx': n + rng.choice([1, 1, 2, 7])}
        elif fr == 'window_negative_from':
            n = rc['shape'][0]
            params['window'] = {'from_idx': -rng.choice([1, 1, 2, n, n + 3])}
            if rng.random() < 0.4:
                params['window']['to_idx'] = rng.choice([n, max(n - 1, 1), -1])
        elif fr == 'chunk_nonpositive':
            params['window'] = {'input_chunk_size': rng.choice([0, -1, -5])}
        elif fr == 'copy_number_256':
            for k in range(257):
                ops.append({'op': 'add', 'lf': lfi['lf'], 'kind': 'zone', 'h': 'cn%d' % k, 'name': 'SAME', 'kwargs': {}})
        elif fr == 'origin_reference_2p30':
            ops.append({'op': 'add', 'lf': lfi['lf'], 'kind': 'zone', 'h': 'fringe1', 'name': 'Z', 'kwargs': {'origin_reference': 2 ** 30}})
        elif fr == 'record_length_odd':
            for op in ops:
                if op.get('op') == 'new_file':
                    op['kwargs']['max_record_length'] = rng.choice([8191, 33, 16386, 18])
        elif fr == 'sul_sequence_10000':
            for op in ops:
                if op.get('op') == 'new_file':
                    op['kwargs']['sul_sequence_number'] = rng.choice([10000, 123456])
        elif fr == 'header_id_66':
            for op in ops:
                if op.get('op') == 'add_lf':
                    op['kwargs']['fh_id'] = 'H' * 66
    if profile == 'B' and params['fringe'] in ('rows_unequal_1', 'rows_unequal_longer', 'rows_unequal_shorter', 'dtype_int64',
                                               'dtype_float16', 'dtype_bool', 'ndim3') and rng.random() < 0.6:
        # the same defect supplied through another source kind (each kind has its own wrapper and checks)
        kind = gen.pick(rng, ['dict', 'h5', 'h5'])
        ops, data = gen.externalize(ops, kind, rng, extras=False)
    params['source'] = kind
    if data:
        params['data'] = data
    return {'scenario': {'env': {'tz': gen.pick(rng, ['UTC', 'Asia/Kolkata', 'America/New_York', 'Europe/Oslo', 'Pacific/Auckland'])}, 'history': ops}, 'params': params}


def _n(shape):
    n = 1
    for s in shape:
        n *= s
    return n


def check_case(case, ex):
    hist = case['scenario']['history']
    Pm = case['params']
    tz = case['scenario']['env'].get('tz')
    fid, mrl = C.fid_of(hist), C.mrl_of(hist)
    stats = C.new_stats(case)
    out = []
    w = C.wop(fid, output_chunk_size=C.resolve_ocs(Pm['ocs'], max(mrl, 20) if isinstance(mrl, int) else 8192, 0), count_lines=True)
    if Pm.get('data'):
        w['data'] = Pm['data']
    if Pm.get('window'):
        w.update(Pm['window'])

    def judge(sc, res, fp):
        st = C.last_write(res)
        if st is None or st['out'] != 'ok':
            return st
        m = M.build(sc['history'], res['steps'])
        F = st.get('file')
        if F is None:
            out.append(C.V('C12.returned_without_file', fp))
            return st
        dec = rp66.decode_file(F)
        v = I.faithful(m, dec, fid, sc['history'][-1], env_tz=tz, data_file=F)
        if v:
            x = v[0]
            rule = 'C12.returned_with_undecodable_file' if x['rule'].startswith(('undecodable', 'layout')) else \
                'C12.returned_with_wrong_content'
            out.append(C.V(rule, dict(fp, inner=x['rule'], label=x['fp'].get('label')), inner_fp=x['fp'], inner_detail=x['detail'],
                           n_inner=len(v)))
        return st

    sc, res = C.run(case, ex, [w], stats)
    fr = Pm.get('fringe')
    fp0 = {'profile': Pm['profile'], 'fringe': fr, 'fault': None, 'source': Pm['source']}
    st = judge(sc, res, fp0)
    if st is None:
        return {'violations': out, 'stats': stats}
    if Pm['profile'] == 'C':
        n_rej = sum(1 for s2 in res['steps'][:-1] if s2 and s2.get('out') == 'exc')
        C.bump(stats['probes'], 'rejected_calls_before_write', n_rej)
        stats['nontrivial'] = n_rej > 0
        stats['state_sigs'].append('C|rej%d|%s' % (min(n_rej, 3), st['out']))
        return {'violations': out, 'stats': stats}
    if Pm['profile'] == 'B':
        built = all(s is None or s.get('out') != 'exc' for s in res['steps'][:-1])
        C.bump(stats['probes'], 'fringe_%s_%s' % (fr, 'rejected_at_build' if not built else ('rejected_at_write' if st['out'] != 'ok'
                                                                                              else 'written')))
        stats['nontrivial'] = built
        stats['state_sigs'].append('B|%s|%s|%s' % (fr, built, st['out']))
        return {'violations': out, 'stats': stats}
    if st['out'] != 'ok':
        C.bump(stats['probes'], 'valid_spec_rejected' if C.rejected_for_size(st) else 'fault_free_write_raised')
        return {'violations': out, 'stats': stats}
    io = st.get('io') or []
    lines = st.get('lines') or 0
    plans = []
    for ev in io:
        if ev['k'] == 'open':
            plans.append([{'kind': 'open_fail', 'at_event': ev['i'], 'errno': 28}])
        elif ev['k'] == 'write':
            plans.append([{'kind': 'write_fail', 'at_event': ev['i'], 'partial': ev['n'] // 2, 'errno': 28}])
            plans.append([{'kind': 'write_fail', 'at_event': ev['i'], 'partial': 0, 'errno': 5}])
            plans.append([{'kind': 'short_write', 'at_event': ev['i'], 'partial': max(ev['n'] // 2, 1)}])
        else:
            plans.append([{'kind': 'close_fail', 'at_event': ev['i'], 'lose': 2}])
    pk = Pm['pick']
    if Pm['source'] == 'h5':
        for p in pk[:4]:
            plans.append([{'kind': 'h5_read', 'at_read': 1 + int(p * 12)}])
        plans.append('h5_truncated')
    if lines and Pm.get('n_faults', 0) >= 100 and pk[9] < 0.1:
        # thorough, a tenth of the cases: stratified sweep over the line events of the write (<= 100 interrupt points)
        k = max(lines // 100, 1)
        for ln in range(1 + int(pk[10] * k), lines + 1, k):
            plans.append([{'kind': 'interrupt', 'at_line': ln}])
    elif lines:
        for p in pk[4:8]:
            plans.append([{'kind': 'interrupt', 'at_line': 1 + int(p * (lines - 1))}])
    nmax = Pm.get('n_faults', 6)
    plans = C.pick_plans(plans, nmax, Pm['pick'])
    for plan in plans:
        w2 = dict(w)
        w2.pop('count_lines', None)
        if plan == 'h5_truncated':
            w2['data'] = dict(w2['data'], truncate=int(40 + pk[8] * 900), file='trunc.h5')
            kind = 'h5_truncated'
        else:
            w2['faults'] = plan
            kind = plan[0]['kind']
        sc2, r2 = C.run(case, ex, [w2], stats)
        s2 = C.last_write(r2)
        fired = kind == 'h5_truncated' or kind in (s2.get('faults_fired') or [])
        if not fired:
            C.bump(stats['probes'], 'fault_did_not_fire')
            continue
        C.bump(stats['faults'], kind)
        stats['nontrivial'] = True
        judge(sc2, r2, dict(fp0, fault=kind))
        if s2['out'] == 'ok':
            C.bump(stats['probes'], 'returned_normally_under_' + kind)
        stats['state_sigs'].append('A|%s|%s|%s' % (Pm['source'], kind, s2['out']))
    return {'violations': out, 'stats': stats}
