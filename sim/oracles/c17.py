"""C17 - high-compatibility mode enforces its restrictions and never leaks.

Dimension: a process-global flag saved/restored around arbitrary user code: enter/exit histories (nested, decorator form)
interleaved with building and writing, and exceptions leaving the context from three sources - a rejected call, an I/O fault
during a write inside the context, an interrupt at an arbitrary line of the body.
Oracle: after every step the flag equals the model's context stack; a file successfully written inside the context satisfies
every restriction; the same inputs are accepted outside the context.
"""
import re
import copy
from .. import gen, genmeta, rp66, model as M, invariants as I
from . import common as C

ID = 'C17'
LEVEL = 'exploration'
LEVEL_TEXT = ('seeded exploration of enter/exit histories (with / decorator, nesting depth 1-3, exits by rejected call, injected '
              'I/O fault, interrupt at a seeded line) around build-and-write programs with one seeded breach of a restricted aspect; '
              'flag checked after every step against a stack model, restrictions checked on the decoded file')
LEVEL_NOTE = ('trusted: sim/rp66.py; the standard\'s value sets for units / index type / equipment type and location are taken from '
              'dliswriter.enums (no offline transcription of the standard available); interrupts fire only below the context body, '
              'never in the frames of the context manager itself')
TIERS = {'quick': {'cases': 4000, 'wall': 45}, 'thorough': {'cases': 200000, 'wall': 840}}
RULE = ('case = seeded history of nested high-compatibility blocks around a specification with at most one breach, plus the same '
        'specification outside the mode; non-trivial = an exception left a block, or blocks were nested, or a breach was present; '
        'distinct = case digest')
HC_RE = re.compile(r'[A-Z0-9_-]+')
BREACHES = [None, None, 'lower_name', 'empty_name', 'bad_set_identifier', 'bad_header_id', 'signed_data', 'channel_two_frames', 'channel_no_frame',
            'nonuniform_index', 'bad_units', 'bad_index_type', 'bad_eq_type', 'bad_eq_location', 'bad_attr_units']


def build(rng, breach, px='', fid='f0'):
    spec = gen.Spec(rng, fid=fid, px=px)
    sid = 'SET-%d' % rng.randint(0, 9) if breach != 'bad_set_identifier' else 'Set id with spaces'
    empty_where = rng.choice(['set_identifier', 'header_id', 'frame', 'zone', 'origin']) if breach == 'empty_name' else None
    if empty_where == 'set_identifier':
        sid = ''                     # a name of length 0 does not match [A-Z0-9_-]+ either
    spec.new_file(mrl=gen.record_length(rng, small=0.3), set_identifier=sid)
    lfi = spec.logical_file(fh_id=('HEADER-1' if empty_where != 'header_id' else '') if breach != 'bad_header_id' else 'header one')
    n_or = rng.choice([1, 1, 2])
    for k in range(n_or):
        kw = {'creation_time': {'$dt': '2020-03-04T05:06:07', 'tz': None}}
        if rng.random() < 0.3:
            kw['file_set_number'] = rng.randint(1, 500)
        spec.emit({'op': 'add', 'lf': lfi['lf'], 'kind': 'origin', 'h': spec.h('o'),
                   'name': 'ORIGIN-%d' % k if not (empty_where == 'origin' and k == n_or - 1) else '', 'kwargs': kw})
    rows = rng.choice([3, 5, 8])
    idx_rc, _ = gen.index_recipe(rng, rows, dtype=rng.choice(['f8', 'f4', 'u2', 'u4']),
                                 mode=rng.choice(['noisy', 'noisy', 'edge_above', 'mono']) if breach == 'nonuniform_index' else rng.choice(['uniform', 'uniform_dec', 'near']))
    indexed = breach in ('nonuniform_index', 'bad_index_type') or rng.random() < 0.5
    c0 = spec.channel(lfi, 'DEPTH', idx_rc, units='bananas' if breach == 'bad_units' else rng.choice(['m', 'ft', {'$enum': ['Unit', 'METER']}]))
    dt = rng.choice(['i2', 'i4', 'i1']) if breach == 'signed_data' else rng.choice(['u1', 'u2', 'u4', 'f4', 'f8'])
    c1 = spec.channel(lfi, 'Lower-case' if breach == 'lower_name' else 'CH-1', gen.array_recipe(rng, rows, dtype=dt, width=rng.choice([None, 2])))
    fkw = {}
    if indexed:
        fkw['index_type'] = 'my index' if breach == 'bad_index_type' else rng.choice(['BOREHOLE-DEPTH', 'VERTICAL-DEPTH', 'NON-STANDARD'])
    spec.frame(lfi, 'MAIN' if empty_where != 'frame' else '', [c0, c1], **fkw)
    if empty_where == 'zone':
        spec.add(lfi, 'zone', '')
    if breach == 'channel_two_frames':
        c2 = spec.channel(lfi, 'CH-2', gen.array_recipe(rng, rows, dtype='f4'))
        spec.frame(lfi, 'SECOND', [c2, c1])
    if breach == 'channel_no_frame':
        spec.channel(lfi, 'ORPHAN', gen.array_recipe(rng, rows, dtype='f4'))
    ekw = {}
    if breach == 'bad_eq_type':
        ekw['eq_type'] = 'Gizmo'
    elif rng.random() < 0.5:
        ekw['eq_type'] = rng.choice(['Tool', 'Pad', {'$enum': ['EquipmentType', 'SONDE']}])
    if breach == 'bad_eq_location':
        ekw['location'] = 'Moon'
    elif rng.random() < 0.5:
        ekw['location'] = rng.choice(['Well', 'Rig'])
    if breach == 'bad_attr_units':
        ekw['height'] = {'$setup': {'value': 1.5, 'units': 'cubits'}}
    elif rng.random() < 0.5:
        ekw['height'] = {'$dict': {'value': 2.5, 'units': 'm'}}
    if ekw or rng.random() < 0.5:
        spec.add(lfi, 'equipment', 'EQ-1', **ekw)
    genmeta.populate(spec, lfi, rng, n=rng.choice([0, 2, 4]), hc=True, routes=False, p_attr=0.3,
                     kinds=['zone', 'axis', 'parameter', 'tool', 'comment', 'message', 'long_name'])
    return spec


def gen_case(rng, tier, avoid):
    breach = gen.pick(rng, BREACHES)
    want_cross = rng.random() < 0.3
    if want_cross:
        breach = None          # the specification itself is clean; the breaches come from assignments made in the other mode
    want_hist = not want_cross and rng.random() < 0.15
    if want_hist:
        # restrictions checked when writing: built and written outside first (accepted), then written inside the context
        breach = gen.pick(rng, ['signed_data', 'channel_two_frames', 'channel_no_frame', 'nonuniform_index', 'nonuniform_index', None])
    spec = build(rng, breach)
    body = list(spec.ops) + [gen.write_op(spec, path='inside.dlis')]
    exit_kind = rng.choice(['normal', 'normal', 'io_fault', 'interrupt', 'rejected_call'])
    if want_hist:
        exit_kind = 'normal'
    if exit_kind == 'io_fault':
        body[-1]['faults'] = [{'kind': rng.choice(['open_fail', 'write_fail', 'close_fail']), 'at_event': rng.choice([0, 1, 2, 3, 5]),
                               'partial': 7}]
        body[-1]['faults'][0]['kind'] = {0: 'open_fail', 1: 'write_fail', 2: 'close_fail', 3: 'open_fail', 5: 'close_fail'}[
            body[-1]['faults'][0]['at_event']]
        body[-1]['propagate'] = True
    elif exit_kind == 'interrupt':
        k = rng.randrange(len(body))
        body[k]['faults'] = [{'kind': 'interrupt', 'at_line': rng.randint(1, 60 if body[k]['op'] != 'write' else 3000)}]
        body[k]['propagate'] = True
    elif exit_kind == 'rejected_call':
        body.insert(rng.randint(2, len(body) - 1), {'op': 'add', 'lf': spec.lfs[0]['lf'], 'kind': 'zone', 'h': 'rej1',
                                                      'name': 'not hc compatible', 'kwargs': {}, 'propagate': True})
    if breach is None and not want_cross and not want_hist and rng.random() < 0.15 and exit_kind == 'normal' and 'rename_inside_hc' not in avoid:
        # rename an object inside the context to a name the mode forbids: a breach made by assignment instead of construction
        tgt = gen.pick(rng, [op for op in spec.ops if op.get('op') == 'add' and op['kind'] in ('channel', 'zone', 'equipment', 'frame', 'axis')] or [None])
        if tgt is not None:
            body.insert(len(body) - 1, {'op': 'set_prop', 'h': tgt['h'], 'prop': 'name', 'v': 'renamed lower'})
            breach = 'rename_inside'
    for op in body:
        if op.get('op') == 'add' and rng.random() < 0.3 and breach:
            op.setdefault('propagate', rng.random() < 0.5)
    cross = None
    pre = []
    if want_cross and exit_kind == 'normal':
        # objects created in one mode, enumerated attributes assigned in the other
        cross = rng.choice(['built_outside_assigned_inside', 'built_inside_assigned_outside'])
        tgt = [op for op in spec.ops if op.get('op') == 'add' and op['kind'] in ('channel', 'frame', 'equipment')]
        sets = []
        for op in tgt:
            if op['kind'] == 'channel':
                sets.append({'op': 'set', 'h': op['h'], 'attr': 'units', 'part': 'value', 'v': 'furlong'})
            elif op['kind'] == 'frame' and 'index_type' in op['kwargs']:
                sets.append({'op': 'set', 'h': op['h'], 'attr': 'index_type', 'part': 'value', 'v': 'SOMETHING-ELSE'})
                sets.append({'op': 'set', 'h': op['h'], 'attr': 'spacing', 'part': 'units', 'v': 'furlong'})
            elif op['kind'] == 'equipment':
                sets.append({'op': 'set', 'h': op['h'], 'attr': '_type', 'part': 'value', 'v': 'Gizmo'})
        sets = [x for x in sets if rng.random() < 0.6] or sets[:1]
        if cross == 'built_outside_assigned_inside':
            pre = [op for op in body if op.get('op') != 'write']
            body = sets + [op for op in body if op.get('op') == 'write']
        else:
            cross_after = sets
    if want_hist:
        cross = 'written_outside_then_inside'
        pre = [op for op in body if op.get('op') != 'write']
        for k in range(rng.choice([1, 1, 2])):
            pre.append(gen.write_op(spec, path='pre%d.dlis' % k))
        body = [op for op in body if op.get('op') == 'write']
    depth = rng.choice([1, 1, 2, 3])
    block = {'op': 'hc_block', 'form': rng.choice(['with', 'decorator']), 'body': body}
    hist_pre = pre
    for d in range(depth - 1):
        pre = []
        post = []
        if rng.random() < 0.6:
            s2 = build(rng, None, px='n%d_' % d, fid='g%d' % d)
            post = list(s2.ops) + [gen.write_op(s2, path='nested%d.dlis' % d)]
        block = {'op': 'hc_block', 'form': rng.choice(['with', 'decorator']), 'body': pre + [block] + post}
    hist = hist_pre + [block]
    if cross == 'built_inside_assigned_outside':
        # after the context: the same non-standard values must be accepted (with a warning), and the file be writable
        hist += [dict(x, expect_ok_outside=True) for x in cross_after] + [gen.write_op(spec, path='after.dlis')]
    # the same specification outside the mode
    out_spec = copy.deepcopy(spec.ops)
    for op in out_spec:
        if 'h' in op:
            op['h'] = 'out_' + op['h']
        if 'lf' in op:
            op['lf'] = 'out_' + op['lf']
        if 'fid' in op:
            op['fid'] = 'out_' + op['fid']
        op.pop('faults', None)
        op.pop('propagate', None)
        _rename_refs(op.get('kwargs'))
    outside = out_spec + [{'op': 'write', 'fid': 'out_f0', 'path': 'outside.dlis', 'output_chunk_size': 1 << 20}]
    r_out = rng.random()
    if r_out < 0.3:
        # the same specification is built and written OUTSIDE the mode first (accepted, with warnings), by unrelated objects:
        # whatever the process learnt while accepting it must not soften the mode afterwards
        hist = outside + hist
    elif r_out < 0.5:
        hist = out_spec[:3] + hist + out_spec[3:] + outside[-1:]        # something before the block as well
    else:
        hist += outside
    if rng.random() < 0.15:
        # warnings silenced by the application's logging configuration: the mode must raise all the same
        hist = [{'op': 'set_log', 'mode': rng.choice(['error', 'disabled'])}] + hist
    return {'scenario': {'env': {'tz': 'UTC'}, 'history': hist},
            'params': {'breach': breach, 'exit': exit_kind, 'depth': depth, 'form': block['form'], 'cross': cross}}


def _rename_refs(v):
    if isinstance(v, dict):
        if '$ref' in v:
            v['$ref'] = 'out_' + v['$ref']
        else:
            for x in v.values():
                _rename_refs(x)
    elif isinstance(v, list):
        for x in v:
            _rename_refs(x)


def flag_checks(hist, steps, out, depth=0, fp=None, stats=None):
    """After every step the flag equals (context depth > 0)."""
    for op, st in zip(hist, steps):
        if st is None:
            continue
        want = depth > 0
        if op.get('op') == 'hc_block':
            if st.get('hc_inside') is False:
                out.append(C.V('C17.flag_not_set_inside', dict(fp or {}, depth=depth + 1)))
            exited_by = 'normal' if st.get('out') == 'ok' else ('propagated' if st.get('propagated') else str(st.get('exc')))
            flag_checks(op.get('body', []), st.get('body') or [], out, depth + 1, fp, stats)
            if st.get('hc') is None:
                if stats is not None:
                    C.bump(stats['skipped'], 'mode_flag_not_readable')       # the public configuration object moved: seam dead, no verdict
            elif st.get('hc') is not want:
                out.append(C.V('C17.flag_leaked', dict(fp or {}, after='block_exit', exit=exited_by, depth=depth + 1,
                                                      form=op.get('form')), got=st.get('hc'), want=want))
            if stats is not None:
                C.bump(stats['probes'], 'block_exit_' + ('normal' if exited_by == 'normal' else 'exception'))
                if depth:
                    C.bump(stats['probes'], 'nested_block')
        else:
            if st.get('hc') is not None and st.get('hc') is not want:
                out.append(C.V('C17.flag_leaked' if not want else 'C17.flag_not_set_inside',
                               dict(fp or {}, after=op.get('op'), depth=depth), got=st.get('hc'), want=want))


def restrictions(dec, m, fid, fp):
    """Every restriction of the mode on a decoded file that was written inside the context."""
    out = []
    try:
        from dliswriter import enums
        units_ok = set(u.value for u in enums.Unit)
        idx_ok = set(u.value for u in enums.FrameIndexType)
        eqt_ok = set(u.value for u in enums.EquipmentType)
        eql_ok = set(u.value for u in enums.EquipmentLocation)
    except Exception:       # trusted base missing: skip the enumerated-value aspect
        units_ok = idx_ok = eqt_ok = eql_ok = None
    sid = dec.framing.sul['set_identifier'].rstrip(' ') if dec.framing.sul else ''
    if not HC_RE.fullmatch(sid or ''):
        out.append(C.V('C17.restriction_not_enforced', dict(fp, aspect='set_identifier'), got=sid))
    for lf in dec.lfs:
        if lf.header and lf.header.objects:
            hid = (lf.header.objects[0].attrs['ID'].values[0] if lf.header.objects[0].attrs.get('ID') else '').rstrip(' ')
            if not HC_RE.fullmatch(hid):
                out.append(C.V('C17.restriction_not_enforced', dict(fp, aspect='header_id'), got=hid))
        frames_of = {}
        for s in lf.sets:
            if s.type == 'FILE-HEADER':
                continue
            for o in s.objects:
                if not HC_RE.fullmatch(o.name[2]):
                    out.append(C.V('C17.restriction_not_enforced', dict(fp, aspect='object_name', set=s.type), got=o.name[2]))
                for label, a in o.attrs.items():
                    if a is not None and a.units and units_ok is not None and a.units not in units_ok:
                        out.append(C.V('C17.restriction_not_enforced', dict(fp, aspect='units', set=s.type), label=label, got=a.units))
                if s.type == 'CHANNEL':
                    rc = o.attrs.get('REPRESENTATION-CODE')
                    if rc is not None and rc.values and rc.values[0] in (12, 13, 14):
                        out.append(C.V('C17.restriction_not_enforced', dict(fp, aspect='signed_channel_data'), channel=o.name[2]))
                    u = o.attrs.get('UNITS')
                    if u is not None and u.values and units_ok is not None and u.values[0] not in units_ok:
                        out.append(C.V('C17.restriction_not_enforced', dict(fp, aspect='units', set=s.type), got=u.values))
                    frames_of.setdefault(tuple(o.name), 0)
                if s.type == 'EQUIPMENT':
                    for label, ok, asp in (('TYPE', eqt_ok, 'equipment_type'), ('LOCATION', eql_ok, 'equipment_location')):
                        a = o.attrs.get(label)
                        if a is not None and a.values and ok is not None and a.values[0] not in ok:
                            out.append(C.V('C17.restriction_not_enforced', dict(fp, aspect=asp), got=a.values))
        for s in lf.sets:
            if s.type != 'FRAME':
                continue
            for o in s.objects:
                ch = o.attrs.get('CHANNELS')
                for c in (ch.values if ch is not None and ch.values else []):
                    frames_of[tuple(c)] = frames_of.get(tuple(c), 0) + 1
                it = o.attrs.get('INDEX-TYPE')
                if it is not None and it.values:
                    if idx_ok is not None and it.values[0] not in idx_ok:
                        out.append(C.V('C17.restriction_not_enforced', dict(fp, aspect='index_type'), got=it.values))
                    sp = o.attrs.get('SPACING')
                    nrows = len(lf.frames[tuple(o.name)].rows) if tuple(o.name) in lf.frames else 0
                    if (sp is None or not sp.values) and nrows > 1:     # (one row: uniformity is vacuous, no spacing exists)
                        out.append(C.V('C17.restriction_not_enforced', dict(fp, aspect='uniform_spacing'), frame=o.name[2]))
                    xs = I.index_values(lf, o) if nrows > 1 else None
                    if xs:
                        # ... and the index values written are what decides, not the presence of a SPACING attribute
                        cls, dev = I.uniformity(xs)
                        if cls == 'nonuniform':
                            out.append(C.V('C17.restriction_not_enforced', dict(fp, aspect='uniform_spacing', by='index_values'),
                                           frame=o.name[2], dev=dev if dev != float('inf') else 'inf'))
        for c, n in frames_of.items():
            if n != 1:
                out.append(C.V('C17.restriction_not_enforced', dict(fp, aspect='channel_in_one_frame', frames=min(n, 2)), channel=list(c)))
    # default file-set numbers are the ordinals 1, 2, ... within their origin set
    if m is not None:
        loc, pairs = M.locate(m, dec, fid)
        for lfm, lfd, ms, rest in pairs:
            for st, sn, objs, s in ms:
                if st != 'ORIGIN' or s is None:
                    continue
                for k, (mo, o) in enumerate(zip(objs, s.objects)):
                    if 'file_set_number' not in mo.kwargs and mo.in_hc:
                        a = o.attrs.get('FILE-SET-NUMBER')
                        if a is None or a.values != [k + 1]:
                            out.append(C.V('C17.restriction_not_enforced', dict(fp, aspect='file_set_number'), want=k + 1,
                                           got=a.values if a else None))
    return out


def _walk_writes(hist, steps, depth=0):
    for i, (op, st) in enumerate(zip(hist, steps)):
        if st is None:
            continue
        if op.get('op') == 'hc_block':
            for x in _walk_writes(op.get('body', []), st.get('body') or [], depth + 1):
                yield x
        elif op.get('op') == 'write':
            yield op, st, depth


def check_case(case, ex):
    hist = case['scenario']['history']
    Pm = case['params']
    stats = C.new_stats(case)
    out = []
    sc, res = C.run(case, ex, [], stats)
    steps = res['steps']
    fp = {'breach': Pm['breach'], 'exit': Pm['exit'], 'depth': Pm['depth'], 'form': Pm['form']}
    flag_checks(hist, steps, out, 0, fp, stats)
    m = M.build(hist, steps)
    exc_left = False
    for op, st, depth in _walk_writes(hist, steps):
        if depth > 0:
            if st.get('out') == 'ok' and st.get('file') is not None:
                dec = rp66.decode_file(st['file'])
                if dec.errors:
                    C.bump(stats['skipped'], 'undecodable_inside')
                    continue
                v = restrictions(dec, m, op['fid'], fp)
                out.extend(v)
                C.bump(stats['probes'], 'files_written_inside')
                if Pm['breach'] and op['fid'] == 'f0' and not v:
                    C.bump(stats['probes'], 'breach_file_written_inside_but_conforming')
            elif st.get('out') == 'exc':
                C.bump(stats['probes'], 'write_inside_raised')
        else:
            # outside the mode the same inputs are accepted
            if op['fid'] == 'out_f0' and st.get('out') != 'ok' and not C.rejected_for_size(st):
                out.append(C.V('C17.rejected_outside_mode', dict(fp, what='write'), exc=st.get('exc'), msg=st.get('msg')))
            elif op['fid'] == 'out_f0' and st.get('warn'):
                C.bump(stats['probes'], 'warned_outside')
    for op, st in zip(hist, steps):
        if st is not None and op.get('expect_ok_outside') and st.get('out') == 'exc':
            out.append(C.V('C17.rejected_outside_mode', dict(fp, what='set_' + op['attr'], cross=Pm.get('cross')), exc=st.get('exc'),
                           msg=st.get('msg')))
            break
    for op, st in zip(hist, steps):
        if st is not None and op.get('op') == 'add' and str(op.get('h', '')).startswith('out_') and st.get('out') == 'exc':
            out.append(C.V('C17.rejected_outside_mode', dict(fp, what='add_' + op['kind']), exc=st.get('exc'), msg=st.get('msg')))
            break
    for st in C.flat_steps(steps):
        if st.get('op') == 'hc_block' and st.get('out') == 'exc':
            exc_left = True
        for k in st.get('faults_fired') or []:
            C.bump(stats['faults'], k + '_inside_hc')
    stats['nontrivial'] = bool(exc_left or Pm['depth'] > 1 or Pm['breach'] or Pm.get('cross'))
    if Pm.get('cross'):
        C.bump(stats['probes'], 'cross_' + Pm['cross'])
    C.bump(stats['probes'], 'breach_' + str(Pm['breach']))
    stats['state_sigs'].append('%s|%s|d%d|%s|%s' % (Pm['breach'], Pm['exit'], Pm['depth'], Pm['form'], exc_left))
    return {'violations': out, 'stats': stats}
