"""C14 - output depends only on the current specification, not on process history.

Dimension: histories of 1-3 interleaved clients building / writing / mutating / re-writing files in one process (caches keyed
on value equality, per-object memoised state, merged data, the compatibility flag, clock/RNG defaults).
Oracle: every write of every client is byte-identical to its projection executed alone in a fresh fork.
"""
import copy
from .. import gen, genmeta, project as P
from . import common as C

ID = 'C14'
LEVEL = 'exploration'
LEVEL_TEXT = ('seeded exploration of interleaved build/write/mutate/re-write histories over 1-3 DLISFile objects (name and value '
              'reuse across clients, high-compat blocks, cache flood in the thorough tier, clock/RNG defaults); each write compared '
              'bytewise with the projection of the history onto its file, run in a fresh fork')
LEVEL_NOTE = ('trusted: the projection builder (validated by the identity history in selftest oracle) and fork-of-zygote == fresh '
              'process (selftest fresh); both sides run the same code; <= 3 clients, <= 4 writes per history')
TIERS = {'quick': {'cases': 1200, 'wall': 45}, 'thorough': {'cases': 120000, 'wall': 840}}
RULE = ('case = seeded interleaving of client programs (build, write, mutate or extend, write again); non-trivial = the compared '
        'write was preceded by at least one op of another file or an earlier write of its own file; distinct = case digest')


def client_program(rng, c, avoid, hc_names, shared_pool=None, collider=None):
    spec = gen.Spec(rng, fid='f%d' % c, px='c%d_' % c, client=c)
    gen.simple_file(rng, spec=spec, mrl=gen.record_length(rng, small=0.3), n_lf=1, max_width=4, hc=hc_names,
                    dtypes=['u1', 'u2', 'u4', 'f4', 'f8'] if hc_names else None,
                    origin_kw={} if rng.random() < 0.8 else None)
    lfi = spec.lfs[0]
    if rng.random() < 0.25:
        # clock / RNG defaults: no explicit creation_time / file_set_number
        for op in spec.ops:
            if op.get('op') == 'add' and op['kind'] == 'origin':
                op['kwargs'].pop('creation_time', None)
                op['kwargs'].pop('file_set_number', None)
                op['now'] = '20%02d-0%d-1%dT0%d:11:12.%06d' % (rng.randint(10, 30), rng.randint(1, 9), rng.randint(0, 9),
                                                              rng.randint(0, 9), rng.randint(0, 999999))
                op['rng_seed'] = rng.randrange(1 << 30)
    m = genmeta.populate(spec, lfi, rng, n=rng.choice([1, 3, 5, 8]), hc=hc_names, p_attr=0.4, shared_pool=shared_pool,
                         kinds=['zone', 'axis', 'parameter', 'computation', 'equipment', 'tool', 'calibration_coefficient',
                                'well_reference_point', 'message', 'comment', 'long_name', 'path', 'splice'])
    if collider is not None:
        # equal-but-distinct values across clients (they compare and hash equal, their encodings differ): each client gets its member
        spec.add(lfi, 'axis', 'COLL%d' % c, coordinates=[collider[c % len(collider)], 2.5])
    prog = list(spec.ops)
    if rng.random() < 0.35:
        prog = prog[:2] + gen.toposhuffle(rng, prog[2:])      # e.g. metadata objects before channels, origin last
    if 'mutating_reads' not in avoid:
        for _ in range(rng.choice([0, 0, 1, 2])):
            # pure reads of public properties at arbitrary points of the build: not part of the specification
            prog.insert(rng.randint(2, len(prog)), {'op': 'read_props', 'lf': lfi['lf'], 'c': c})
    if 'ghost_object' not in avoid and rng.random() < 0.2:
        # a call that is rejected while the client carries on: not part of anybody's specification
        from . import c20
        sb = c20.schema_bad(rng, lfi, 0) if rng.random() < 0.6 else None
        if sb is None:
            sb = c20.bad_op(rng, gen.pick(rng, c20.BAD_KINDS), lfi, spec, 0)
        bop = dict(sb[0], h='c%d_bad' % c, c=c)
        if rng.random() < 0.5 and bop.get('kind') != 'origin':
            # the rejected call names another set of its type than the valid calls use
            bop['kwargs'] = dict(bop.get('kwargs') or {}, set_name='REJ')
        prog.insert(rng.randint(3, len(prog)), bop)
    nw = rng.choice([1, 2, 2, 3])
    if 'second_write_param' in avoid and any(op.get('kind') in ('parameter', 'computation') and 'values' in op.get('kwargs', {})
                                             for op in prog):
        nw = 1
    ext = None
    if rng.random() < 0.3 and 'merged_data' not in avoid:
        # channel data supplied through write(data=...) instead of inline: by the first write only, by every write, or replaced
        prog, ext = gen.externalize(prog, 'dict', rng, extras=False, permute=False)
        ext_mode = rng.choice(['first_only', 'every', 'every'])
    for k in range(nw):
        w = gen.write_op(spec, path='c%d_%d.dlis' % (c, k), ocs=rng.choice([spec.mrl, spec.mrl + 64, 1 << 20]))
        if ext is not None and (k == 0 or ext_mode == 'every'):
            w['data'] = ext
            if k > 0 and rng.random() < 0.5:
                # a later write brings the datasets with other element types
                w['data'] = gen.data_variant(rng, ext) or ext
        rows_c = gen.max_rows(spec)
        minrows_c = min([(op['kwargs'].get('data') or {}).get('$arr', {}).get('shape', [rows_c])[0] for op in spec.ops
                         if op.get('op') == 'add' and op.get('kind') == 'channel'] or [rows_c])
        if nw > 1 and minrows_c > 2 and rng.random() < 0.4:
            # each write selects its own rows (what an earlier write derived from its rows must not carry over)
            a = rng.randint(0, minrows_c - 2)
            w['from_idx'] = a
            w['to_idx'] = rng.randint(a + 1, minrows_c)
        if rng.random() < 0.3:
            w['input_chunk_size'] = rng.choice([1, 2, 5])
        if rng.random() < 0.15:
            # a failed attempt first (I/O error or interrupt at a seeded point): it must leave nothing behind for anybody
            fk = rng.choice(['open_fail', 'write_fail', 'write_fail', 'close_fail', 'interrupt', 'interrupt'])
            if fk == 'interrupt':
                fault = {'kind': 'interrupt', 'at_line': rng.randint(1, 4000)}
            else:
                fault = {'kind': fk, 'at_event': {'open_fail': 0, 'close_fail': rng.choice([2, 3, 5])}.get(fk, rng.choice([1, 2, 3])),
                         'errno': rng.choice([5, 28]), 'partial': rng.choice([0, 7, 80]), 'lose': 0}
            prog.append(dict(copy.deepcopy(w), path='c%d_%df.dlis' % (c, k), faults=[fault]))
        prog.append(w)
        if k + 1 < nw and ext is not None and ext_mode == 'every' and rng.random() < 0.5:
            bop = gen.rejected_assignment(rng, [o for o in spec.ops if o.get('op') == 'add'], c=c, p_channel=0.9)
            if bop:
                prog.append(bop)
        if k + 1 < nw:
            r = rng.random()
            if r < 0.35:
                # mutate an attribute value
                cands = [op for op in spec.ops if op.get('op') == 'add' and op['kind'] in ('zone', 'equipment', 'tool', 'message')]
                if cands:
                    op = gen.pick(rng, cands)
                    attr = {'zone': 'description', 'equipment': 'trademark_name', 'tool': 'description', 'message': 'text'}[op['kind']]
                    prog.append({'op': 'set', 'h': op['h'], 'attr': attr, 'part': 'value', 'v': 'changed %d' % k, 'c': c})
            elif r < 0.6:
                # extend the specification after the first write
                s2 = gen.Spec(rng, fid=spec.fid, px='c%d_x%d_' % (c, k), client=c)
                s2.lfs = spec.lfs
                genmeta.Meta(s2, lfi, rng, hc=hc_names).add(gen.pick(rng, ['zone', 'comment', 'message', 'equipment']))
                prog.extend(s2.ops)
            elif r >= 0.85:
                # the next file of a storage set / sequence from the same specification: label or header changed between writes
                if rng.random() < 0.5:
                    prog.append({'op': 'set_fh', 'lf': lfi['lf'], 'prop': 'sequence_number', 'v': rng.choice([2, 3, 77, 99999]), 'c': c})
                else:
                    prog.append({'op': 'set_sul', 'fid': spec.fid, 'prop': rng.choice(['sequence_number', 'set_identifier']),
                                 'v': None, 'c': c})
                    prog[-1]['v'] = rng.choice([2, 9, 345]) if prog[-1]['prop'] == 'sequence_number' else 'SET-%d' % rng.randint(0, 99)
            elif r < 0.85 and r >= 0.7:
                # an assignment that is rejected while the client carries on
                bop = gen.rejected_assignment(rng, [o for o in spec.ops if o.get('op') == 'add'], c=c)
                if bop:
                    prog.append(bop)
            elif r < 0.7 and 'obname_memo' not in avoid:
                cands = [op for op in spec.ops if op.get('op') == 'add' and op['kind'] in ('zone', 'equipment', 'channel')]
                if cands:
                    op = gen.pick(rng, cands)
                    if op['kind'] == 'channel' and 'long_name' not in op['kwargs'] and rng.random() < 0.4:
                        # the user first supplies, explicitly, the long name the earlier write had defaulted (the channel's name)
                        prog.append({'op': 'set', 'h': op['h'], 'attr': 'long_name', 'part': 'value', 'v': op['name'], 'c': c})
                    prog.append({'op': 'set_prop', 'h': op['h'], 'prop': 'name', 'v': 'RENAMED%d' % k, 'c': c})
    return prog


def gen_case(rng, tier, avoid):
    nc = rng.choice([1, 2, 2, 3])
    use_hc = rng.random() < 0.25
    pool = {} if rng.random() < 0.3 else None      # the clients pass the same dict / AttrSetup objects to their files
    collider = None
    if rng.random() < 0.2 and 'neg_zero' not in avoid:
        np64 = lambda x: {'$npscalar': ['float64', x]}       # noqa: E731
        collider = gen.pick(rng, [[0.0, -0.0], [-0.0, 0.0], [np64(0.0), np64(-0.0)], [np64(-0.0), np64(0.0)], [np64(0.0), -0.0],
                                  [0.0, np64(-0.0)], [0, -0.0], [1, 1.0], [1.0, np64(1.0)], [0, 0.0]])
    progs = [client_program(rng, c, avoid, use_hc, shared_pool=pool, collider=collider) for c in range(nc)]
    # seeded scheduler: interleave the programs
    hist, sched = [], []
    idx = [0] * nc
    while any(idx[c] < len(progs[c]) for c in range(nc)):
        live = [c for c in range(nc) if idx[c] < len(progs[c])]
        c = gen.pick(rng, live)
        burst = rng.choice([1, 1, 2, 4, 8])
        for _ in range(burst):
            if idx[c] < len(progs[c]):
                hist.append(progs[c][idx[c]])
                idx[c] += 1
                sched.append(c)
    if use_hc and len(hist) > 4:
        # open and close the high-compatibility context around a random contiguous stretch of the history
        a = rng.randint(0, len(hist) - 2)
        b = rng.randint(a + 1, min(len(hist), a + 12))
        body = hist[a:b]
        lfs_before = [op['lf'] for op in hist[:b] if op.get('op') == 'add_lf']
        if lfs_before and rng.random() < 0.5:
            # the context is left by an exception: a call the mode rejects, which the caller lets propagate out of the block
            body = body + [{'op': 'add', 'lf': gen.pick(rng, lfs_before), 'kind': 'zone', 'h': 'hc_rej', 'name': 'not hc compatible',
                            'kwargs': {}, 'propagate': True, 'c': 9, 'bad': 'rejected_by_mode'}]
        hist = hist[:a] + [{'op': 'hc_block', 'form': rng.choice(['with', 'decorator']), 'body': body}] + hist[b:]
    if nc >= 2 and not use_hc and rng.random() < 0.12:
        # two CALLER THREADS, each writing its own file, interleaved at seeded line events inside the library (one runs at a time;
        # the schedule is the list of line counts): what the two writes share in the process must not mix their bytes
        hist.append({'op': 'concurrent_writes', 'c': 9,
                     'parts': [{'fid': 'f0', 'path': 'conc0.dlis', 'output_chunk_size': rng.choice([1 << 20, 8192, 16384])},
                               {'fid': 'f1', 'path': 'conc1.dlis', 'output_chunk_size': rng.choice([1 << 20, 8192, 16384])}],
                     'switch': [rng.choice([1, 3, 7, 20, 50, 200, 1000, 5000]) for _ in range(rng.choice([1, 2, 4]))]})
    if rng.random() < 0.12:
        # the environment of the process changes in mid-history: logging configuration, the process time zone
        envop = rng.choice([{'op': 'set_log', 'mode': rng.choice(['error', 'disabled', 'default'])},
                            {'op': 'set_tz', 'tz': rng.choice(['UTC', 'Asia/Kolkata', 'America/New_York', 'Europe/Oslo'])}])
        hist.insert(rng.randint(0, len(hist)), envop)
    if tier == 'thorough' and rng.random() < 0.01:
        hist.insert(rng.randint(0, len(hist)), {'op': 'flood', 'n': 70000})
    return {'scenario': {'env': {'tz': rng.choice(['UTC', 'UTC', 'Asia/Kolkata', 'America/New_York'])}, 'history': hist},
            'params': {'schedule': ''.join(str(c) for c in sched)}}


def _locate(F, G):
    """First differing logical record / set between two files (diagnostics only)."""
    from .. import rp66
    try:
        a, b = rp66.decode_file(F), rp66.decode_file(G)
        for i, (x, y) in enumerate(zip(a.records, b.records)):
            if x.key() != y.key():
                what = {'record': i, 'eflr': x.is_eflr, 'type': x.type}
                if x.is_eflr:
                    s, t = rp66.parse_eflr(x.body), rp66.parse_eflr(y.body)
                    what['set'] = s.type
                    for o1, o2 in zip(s.objects, t.objects):
                        if o1.name != o2.name:
                            what.update(object_got=o1.name, object_want=o2.name)
                            return what
                        for lb in o1.attrs:
                            v1, v2 = o1.attrs.get(lb), o2.attrs.get(lb)
                            r1 = (v1.raws, v1.units, v1.code) if v1 else None
                            r2 = (v2.raws, v2.units, v2.code) if v2 else None
                            if r1 != r2:
                                what.update(object=o1.name, label=lb, got=v1.summary() if v1 else None,
                                            want=v2.summary() if v2 else None)
                                return what
                return what
        return {'records_got': len(a.records), 'records_want': len(b.records)}
    except Exception as e:      # diagnostics must never raise
        return {'diagnostics_failed': repr(e)}


def check_case(case, ex):
    hist = case['scenario']['history']
    stats = C.new_stats(case)
    out = []
    sc, res = C.run(case, ex, [], stats)
    steps = res['steps']
    wks = P.writes_in(hist)
    lf_fid, h_lf = P.owner_maps(hist)
    seen_writes = {}
    for n, k in enumerate(wks):
        st = P.step_at(steps, k)
        if st is None or st.get('out') == 'skip':
            continue
        wop = hist[k[0]]['body'][k[1]] if isinstance(k, tuple) else hist[k]
        fid = wop['fid']
        proj = P.project(hist, steps, k, path='proj.dlis')
        r2 = ex({'env': case['scenario']['env'], 'history': proj})
        stats['execs'] += 1
        st2 = C.last_write(r2)
        top = k[0] if isinstance(k, tuple) else k
        foreign = sum(1 for op in hist[:top] if P.op_fid(op, lf_fid, h_lf) not in (fid, None)) + (
            1 if any(op.get('op') in ('hc_block', 'flood') for op in hist[:top]) else 0)
        earlier = seen_writes.get(fid, 0)
        seen_writes[fid] = earlier + 1
        hclass = 'earlier_write_same_file' if earlier else ('foreign_file' if foreign else 'none')
        in_hc = isinstance(k, tuple)
        fp = {'history': hclass, 'write_no': min(earlier + 1, 2), 'in_hc_block': in_hc}
        if foreign or earlier:
            stats['nontrivial'] = True
        C.bump(stats['probes'], 'writes_compared')
        C.bump(stats['probes'], 'history_' + hclass)
        if st2 is None:
            continue
        if wop.get('faults') and st.get('faults_fired'):
            # the failed attempt itself is C12's and C20's subject; what it leaves behind shows in the later writes
            C.bump(stats['probes'], 'failed_attempt_in_history')
            for fk in st['faults_fired']:
                C.bump(stats['faults'], fk)
            continue
        if st['out'] != st2['out']:
            out.append(C.V('C14.outcome_differs', dict(fp, got=st['out'], exc=st.get('exc') or st2.get('exc')),
                           history_outcome=st['out'], projection_outcome=st2['out'], msg=st.get('msg') or st2.get('msg')))
            continue
        if st['out'] == 'ok' and st.get('file') != st2.get('file'):
            loc = _locate(st.get('file') or b'', st2.get('file') or b'')
            f2 = dict(fp, set=loc.get('set'), label=loc.get('label'))
            f2['only_set_order'] = C.canon_modulo_set_order(st.get('file')) == C.canon_modulo_set_order(st2.get('file'))
            f2['renamed'] = bool(loc.get('object_want') and str(loc['object_want'][2]).startswith('RENAMED'))
            if loc.get('got') and loc.get('want'):
                gv, wv = loc['got'].get('values'), loc['want'].get('values')
                f2['neg_zero'] = bool(gv and wv and len(gv) == len(wv) and any(
                    isinstance(a, float) and isinstance(b, float) and a == b == 0.0 and str(a) != str(b) for a, b in zip(gv, wv)))
            out.append(C.V('C14.bytes_differ', f2, where=loc, write=str(k)))
        stats['state_sigs'].append('%s|w%d|hc%s|%s' % (hclass, min(earlier + 1, 3), in_hc, st['out']))
    for i, op in enumerate(hist):
        if op.get('op') != 'concurrent_writes':
            continue
        st = steps[i]
        if st is None or st.get('out') != 'ok':
            C.bump(stats['probes'], 'concurrent_writes_not_run')
            continue
        C.bump(stats['probes'], 'concurrent_writes')
        C.bump(stats['probes'], 'thread_switches', st.get('switches') or 0)
        stats['nontrivial'] = True
        for part, pst in zip(op['parts'], st.get('parts') or []):
            w = {'op': 'write', 'fid': part['fid'], 'path': 'proj.dlis', 'output_chunk_size': part['output_chunk_size']}
            proj = P.project(hist[:i] + [w], list(steps[:i]) + [None], i, path='proj.dlis')
            r2 = ex({'env': case['scenario']['env'], 'history': proj})
            stats['execs'] += 1
            st2 = C.last_write(r2)
            fp = {'history': 'concurrent_write', 'write_no': 1, 'in_hc_block': False}
            if st2 is None:
                continue
            if pst.get('out') != st2['out']:
                out.append(C.V('C14.outcome_differs', dict(fp, got=pst.get('out'), exc=pst.get('exc') or st2.get('exc')),
                               history_outcome=pst.get('out'), projection_outcome=st2['out'], msg=pst.get('msg') or st2.get('msg')))
            elif pst.get('out') == 'ok' and pst.get('file') != st2.get('file'):
                loc = _locate(pst.get('file') or b'', st2.get('file') or b'')
                out.append(C.V('C14.bytes_differ', dict(fp, set=loc.get('set'), label=loc.get('label'), only_set_order=False,
                                                        renamed=False), where=loc, switches=st.get('switches')))
        stats['state_sigs'].append('concurrent|%s' % min((st.get('switches') or 0) // 10, 99))
    stats['interleaving'] = case['params'].get('schedule')
    return {'violations': out, 'stats': stats}
