"""C07 - object identity is unique and every reference resolves in its logical file.

Dimension: call order and history - copy numbers are computed from the registry at creation time, origins are back-filled
when the first origin arrives, identity bytes are memoised: permuted programs (origin first / middle / last), interleaved
logical files, write-then-extend, origin reference changed after a write.
Oracle (relational, on the decoded file): identities unique per logical file; every OBNAME/OBJREF equals the identity of the
positional match of the handle the user passed and is defined in the same logical file; every origin field names an origin
of that logical file.
"""
from .. import gen, genmeta, rp66, expect, schema, invariants as I, model as M
from . import common as C

ID = 'C07'
LEVEL = 'exploration'
LEVEL_TEXT = ('seeded exploration of object graphs (all reference attributes, shared targets, repeated names, several origins, '
              'explicit origin references) x permuted call orders x 1-3 interleaved logical files x write-extend-write histories '
              'x origin reference changed after a write; relational identity / resolution checks on the decoded file')
LEVEL_NOTE = ('trusted: sim/rp66.py, positional matching of objects within their set (model never predicts copy numbers or origins)')
TIERS = {'quick': {'cases': 2500, 'wall': 45}, 'thorough': {'cases': 200000, 'wall': 840}}
RULE = ('case = seeded reference-rich specification with permuted add_* order (and 1-3 logical files interleaved), written, optionally '
        'extended / re-originated and written again; non-trivial = origin not first, or repeated names, or >= 2 logical files, or a '
        'second write; distinct = case digest')


def gen_case(rng, tier, avoid):
    n_lf = rng.choice([1, 1, 2, 3])
    spec = gen.Spec(rng)
    spec.new_file(mrl=gen.record_length(rng, small=0.2))
    progs = []
    for li in range(n_lf):
        start = len(spec.ops)
        lfi = spec.logical_file(fh_id='LF-%d' % li)
        sn = {'set_name': 'S%d' % li} if n_lf > 1 else {}
        n_or = rng.choice([1, 1, 2, 3])
        # several origins of one logical file, each in its own named ORIGIN set (the first one written defines the file)
        named_origin_sets = n_lf == 1 and n_or > 1 and rng.random() < 0.35
        for k in range(n_or):
            okw = dict(sn)
            if rng.random() < 0.4:
                okw['origin_reference'] = [2, 9, 130, 16384][k % 4] + li * 3
            if named_origin_sets:
                okw['set_name'] = 'OS-%d' % k
            spec.origin(lfi, nm='ORIGIN-%d' % k, **okw)
        used = set()
        for _ in range(rng.choice([1, 2])):
            gen.frame_block(spec, lfi, rng, used=used if rng.random() < 0.6 else set(), max_width=3)
        if rng.random() < 0.5:
            spec.no_format(lfi, 'NF', [gen.payload(rng, 100) for _ in range(rng.choice([1, 2]))])
        if sn:
            for op in spec.ops[start:]:
                if op.get('op') == 'add' and op['kind'] != 'origin':
                    op['kwargs'].setdefault('set_name', sn['set_name'])
        m = genmeta.populate(spec, lfi, rng, n=rng.choice([4, 8, 14]), routes=rng.random() < 0.5, set_name=sn.get('set_name'),
                             p_attr=0.5, units=False)
        if n_lf == 1 and 'same_name_other_set' not in avoid and rng.random() < 0.2:
            # same-named objects of one type placed in two different sets of the logical file
            kd = rng.choice(['zone', 'axis', 'equipment', 'comment'])
            nm2 = 'TWIN'
            for sname in (('SET-A', 'SET-B') if rng.random() < 0.5 else ('SET-A', 'SET-B', 'SET-A', 'SET-B')):
                spec.add(lfi, kd, nm2, set_name=sname)
        origin_ops0 = [op for op in spec.ops[start:] if op.get('kind') == 'origin']
        if len(origin_ops0) > 1 and rng.random() < 0.1:
            origin_ops0[0]['kwargs']['origin_reference'] = 5 + li        # the defining origin numbered explicitly, not 0 ...
            origin_ops0[-1]['kwargs']['origin_reference'] = 0            # ... and a later origin asking for 0
        # explicit origin references on a few objects, pointing at origins of this logical file
        refs = [op['kwargs']['origin_reference'] for op in spec.ops[start:] if op.get('kind') == 'origin'
                and op['kwargs'].get('origin_reference')]      # (an explicit 0 is the library's 'not given')
        for op in spec.ops[start:]:
            if op.get('op') == 'add' and op['kind'] not in ('origin',) and refs and rng.random() < 0.15:
                op['kwargs']['origin_reference'] = gen.pick(rng, refs)
        origin_ops = [op for op in spec.ops[start:] if op.get('kind') == 'origin']
        if len(origin_ops) > 1 and rng.random() < 0.2:
            # objects created FOR a later origin by passing on its reference as read back from the object (whatever number it got;
            # the later origin may have asked for 0 while the defining one has an explicit other number)
            later_o = origin_ops[-1]
            for op in spec.ops[start:]:
                if op.get('op') == 'add' and op['kind'] not in ('origin', 'channel', 'frame') and rng.random() < 0.4 \
                        and 'origin_reference' not in op['kwargs']:
                    op['kwargs']['origin_reference'] = {'$originref_of': later_o['h']}
        prog = spec.ops[start:]
        mode = rng.choice(['as_is', 'shuffle', 'shuffle', 'origin_last'])
        if mode == 'shuffle':
            prog = prog[:1] + gen.toposhuffle(rng, prog[1:])
        elif mode == 'origin_last':
            o = [x for x in prog if x.get('kind') == 'origin']
            prog = [x for x in prog if x.get('kind') != 'origin'] + o
        if named_origin_sets and rng.random() < 0.6:
            # a rejected add_origin naming the set of a LATER origin, made before any origin exists: it must not decide
            # which origin comes first in the file
            first_o = next(i for i, x in enumerate(prog) if x.get('kind') == 'origin')
            prog = list(prog)
            prog.insert(rng.randint(1, first_o), {'op': 'add', 'lf': lfi['lf'], 'kind': 'origin', 'h': 'rej_o%d' % li, 'name': 'REJECTED',
                                                  'kwargs': {'set_name': 'OS-%d' % rng.randint(1, n_or - 1), 'creation_time': 'garbage'},
                                                  'bad': 'origin_bad_time', 'c': 0})
        progs.append(prog)
    hist = spec.ops[:1]
    idx = [0] * n_lf
    sched = []
    while any(idx[c] < len(progs[c]) for c in range(n_lf)):
        live = [c for c in range(n_lf) if idx[c] < len(progs[c])]
        c = gen.pick(rng, live)
        if idx[c] == 0 and any(idx[d] == 0 for d in range(c)):
            c = min(d for d in range(n_lf) if idx[d] == 0)
        for _ in range(rng.choice([1, 2, 5, 30])):
            if idx[c] < len(progs[c]):
                hist.append(progs[c][idx[c]])
                idx[c] += 1
                sched.append(c)
    hist.append(gen.write_op(spec, path='out1.dlis'))
    second = rng.random() < 0.35
    if second:
        lfi = spec.lfs[0]
        r = rng.random()
        if r < 0.5:
            s2 = gen.Spec(rng, fid='f0', px='x_', client=0)
            s2.lfs = spec.lfs
            mm = genmeta.Meta(s2, lfi, rng, routes=False, set_name='S0' if n_lf > 1 else None, units=False)
            for _ in range(rng.choice([1, 2, 3])):
                mm.add(gen.pick(rng, ['zone', 'tool', 'parameter', 'group', 'splice', 'calibration']))
            hist.extend(s2.ops)
        else:
            # the identity of objects changes between the writes (rename, re-pointed origin) - preferably of objects that others
            # refer to: every reference in the second file must carry the identity the object has then
            from .. import values as _v
            mine = [op for op in hist if op.get('op') == 'add' and op['lf'] == lfi['lf'] and op['kind'] not in ('origin', 'frame')]
            targets = set()
            for op in mine:
                targets.update(_v.refs_in(op.get('kwargs')))
            referenced = [op for op in mine if op.get('h') in targets]
            origins = [op for op in hist if op.get('op') == 'add' and op['lf'] == lfi['lf'] and op['kind'] == 'origin'
                       and op['kwargs'].get('origin_reference')]      # (an explicit 0 is renumbered by the library)
            for n in range(rng.choice([1, 1, 2, 3])):
                pool = referenced if referenced and rng.random() < 0.7 else mine
                if not pool:
                    break
                tgt = gen.pick(rng, pool)
                if origins and rng.random() < 0.4:
                    hist.append({'op': 'set_prop', 'h': tgt['h'], 'prop': 'origin_reference',
                                 'v': gen.pick(rng, origins)['kwargs']['origin_reference'], 'c': 0})
                else:
                    hist.append({'op': 'set_prop', 'h': tgt['h'], 'prop': 'name', 'v': 'REN-%d-%d' % (n, rng.randint(0, 99)), 'c': 0})
        hist.append(gen.write_op(spec, path='out2.dlis'))
    return {'scenario': {'env': {'tz': 'UTC'}, 'history': hist}, 'params': {'schedule': ''.join(map(str, sched)), 'n_lf': n_lf,
                                                                            'second': second}}


def check_file(m, dec, fid, fp0):
    out = []
    loc, pairs = M.locate(m, dec, fid)
    for lfm, lfd, ms, rest in pairs:
        if lfd is None:
            continue
        li = m.files[fid].lfs.index(lfm)
        # (a) identities unique per logical file
        seen = {}
        for s in lfd.sets:
            if s.type == 'FILE-HEADER':
                continue
            for o in s.objects:
                k = (s.type,) + tuple(o.name)
                if k in seen:
                    out.append(C.V('C07.identity_not_unique', dict(fp0, set=s.type, other_set=seen[k] != s.name),
                                   identity=list(k), lf=li, sets=[seen[k], s.name]))
                seen[k] = s.name
        # (c) origin fields: every object's origin is the origin reference of an ORIGIN object of this logical file
        origin_refs = set(o.name[0] for s in lfd.sets if s.type == 'ORIGIN' for o in s.objects)
        for mo in lfm.objects:
            if mo.h not in loc:
                continue
            s, o, _ = loc[mo.h]
            want = None
            if mo.origin_reference is not None and mo.kind != 'origin':
                want = mo.origin_reference
                if isinstance(want, dict) and '$originref_of' in want:
                    # the user passed on the reference read back from an origin it had created: that origin's reference AS WRITTEN
                    tgt = loc.get(want['$originref_of'])
                    want = tgt[1].name[0] if tgt is not None else None
            for p, lit, _ in mo.props_later:
                if p == 'origin_reference':
                    want = lit
            fp = dict(fp0, set=s.type, explicit=want is not None)
            if o.name[0] not in origin_refs:
                out.append(C.V('C07.origin_not_in_lf', fp, object=list(o.name), origins=sorted(origin_refs), lf=li))
            elif want is not None and o.name[0] != want:
                out.append(C.V('C07.origin_not_in_lf', dict(fp, why='not_the_chosen_origin'), object=list(o.name), want=want))
            elif want is None and mo.kind != 'origin':
                # the defining origin unless the user chose another
                first = next((so.objects[0].name[0] for so in lfd.sets if so.type == 'ORIGIN' and so.objects), None)
                if first is not None and o.name[0] != first:
                    out.append(C.V('C07.origin_not_in_lf', dict(fp, why='not_the_defining_origin'), object=list(o.name), want=first))
        # the FILE-HEADER object is an object too: nobody chooses its origin, so it carries the defining origin's reference
        first = next((so.objects[0].name[0] for so in lfd.sets if so.type == 'ORIGIN' and so.objects), None)
        if lfd.header is not None and lfd.header.objects and first is not None and lfd.header.objects[0].name[0] != first:
            out.append(C.V('C07.origin_not_in_lf', dict(fp0, set='FILE-HEADER', explicit=False, why='not_the_defining_origin'),
                           object=list(lfd.header.objects[0].name), want=first, lf=li))
        # (b) references decode to exactly one object of the same logical file: the one the user passed
        for mo in lfm.objects:
            if mo.h not in loc:
                continue
            s, o, _ = loc[mo.h]
            if s.errors:
                continue
            exp = expect.expected_attrs(mo)
            for label, e in exp.items():
                base = e.t.split(':')[0]
                if base not in ('ref', 'refs', 'objref', 'objrefs', 'ref_or_text') or e.value is expect.SENTINEL:
                    continue
                a = o.attrs.get(label)
                if a is None or not a.has_value:
                    out.append(C.V('C07.ref_unresolved', dict(fp0, set=s.type, label=label, why='absent'), object=mo.name))
                    continue
                r = expect.compare_value(e, a, loc, 'UTC', mo)
                if r is not None:
                    out.append(C.V('C07.ref_wrong_target', dict(fp0, set=s.type, label=label), object=mo.name, **r[1]))
                    continue
                for g in a.values:
                    if isinstance(g, tuple) and len(g) in (3, 4):
                        typ = g[0] if len(g) == 4 else None
                        ob = tuple(g[-3:])
                        n = sum(1 for s2 in lfd.sets for o2 in s2.objects if tuple(o2.name) == ob and (typ is None or s2.type == typ)
                                and (typ is not None or _admissible(mo.kind, label, s2.type)))
                        if n != 1:
                            out.append(C.V('C07.ref_unresolved', dict(fp0, set=s.type, label=label, matches=min(n, 2)),
                                           object=mo.name, ref=list(g)))
                            break
    for e in dec.errors:
        if e.rule in ('iflr.frame_ref_unresolved', 'iflr.noformat_ref_unresolved', 'iflr.channel_unresolved'):
            out.append(C.V('C07.iflr_ref_unresolved', dict(fp0, why=e.rule), **e.detail))
    return out


def _admissible(kind, label, set_type):
    t = schema.by_label(kind).get(label)
    if not t:
        return True
    arg = t[1].partition(':')[2]
    if not arg or arg == 'any':
        return True
    return M.SET_TYPE.get(arg) == set_type


def check_case(case, ex):
    hist = case['scenario']['history']
    stats = C.new_stats(case)
    out = []
    sc, res = C.run(case, ex, [], stats)
    steps = res['steps']
    wi = [i for i, op in enumerate(hist) if op.get('op') == 'write']
    Pm = case['params']
    from .c09 import origin_position
    pos = origin_position(hist)
    names = [(op['lf'], op['kind'], op.get('name')) for op in hist if op.get('op') == 'add']
    repeated = len(names) != len(set(names))
    stats['nontrivial'] = pos != 'first' or repeated or Pm['n_lf'] > 1 or Pm['second']
    stats['interleaving'] = Pm['schedule'] if Pm['n_lf'] > 1 else None
    for n, i in enumerate(wi):
        st = steps[i]
        if st is None or st['out'] != 'ok' or st.get('file') is None:
            C.bump(stats['probes'], 'valid_spec_rejected' if C.rejected_for_size(st) else 'write_failed')
            if st is not None and st.get('out') == 'exc':
                C.bump(stats['probes'], 'write_exc_%s' % st.get('exc'))
            continue
        m = M.build(hist, steps, upto=i)
        dec = rp66.decode_file(st['file'])
        fp0 = {'origin_pos': pos, 'write_no': n + 1, 'n_lf': Pm['n_lf']}
        out.extend(check_file(m, dec, 'f0', fp0))
        # the reference that opens each indirectly formatted record names the frame / no-format object the user passed
        rv, _ = I.rows(m, dec, 'f0', hist[i], prop='C07', extra_fp=fp0)
        for x in rv:
            if x['rule'] in ('C07.row_count', 'C07.frame_ref', 'C07.frame_number'):
                x['rule'] = 'C07.iflr_ref_wrong_target'
                out.append(x)
        pv, _ = I.payloads(m, dec, 'f0', prop='C07')
        for x in pv:
            if x['rule'] in ('C07.wrong_object', 'C07.payload_count'):
                x['rule'] = 'C07.iflr_ref_wrong_target'
                x['fp'].update(fp0)
                out.append(x)
        hard = [e for e in dec.errors if e.rule.startswith(('framing.', 'reasm.', 'eflr.', 'decode.'))]
        if hard and not out:
            out.append(C.V('C07.undecodable', dict(fp0, why=hard[0].rule), **hard[0].detail))
        C.bump(stats['probes'], 'files_checked')
    C.bump(stats['probes'], 'origin_' + pos)
    if repeated:
        C.bump(stats['probes'], 'repeated_names')
    stats['state_sigs'].append('%s|lf%d|rep%s|second%s' % (pos, Pm['n_lf'], repeated, Pm['second']))
    return {'violations': out, 'stats': stats}
