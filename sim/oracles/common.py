"""Helpers shared by the per-property oracles."""
import copy
import json
import hashlib

from .. import rp66, gen


def V(rule, fp=None, **detail):
    return {'rule': rule, 'fp': fp or {}, 'detail': detail}


def digest(obj):
    from ..engine import digest as d
    return d(obj)


def scenario_with(case, extra_ops, env=None):
    sc = {'env': dict(case['scenario'].get('env') or {}), 'history': list(case['scenario']['history']) + list(extra_ops)}
    if env:
        sc['env'].update(env)
    return sc


def last_write(res):
    for st in reversed(res['steps']):
        if st and st.get('op') == 'write':
            return st
    return None


def writes(res):
    return [st for st in res['steps'] if st and st.get('op') == 'write']


def flat_steps(steps):
    for st in steps:
        if st is None:
            continue
        yield st
        if st.get('body'):
            for x in flat_steps(st['body']):
                yield x


def resolve_ocs(sym, mrl, size):
    k = sym[0]
    if k == 'abs':
        return sym[1]
    if k == 'mrl':
        return mrl + sym[1]
    if k == 'fmrl':
        return float(mrl + sym[1])
    if k == 'size':
        return max(size + sym[1], mrl)
    raise ValueError(sym)


def ocs_class(sym):
    if sym[0] == 'default':
        return 'default'
    return '%s%+d' % (sym[0], sym[1]) if sym[0] != 'abs' else ('abs_big' if sym[1] >= 1 << 16 else 'abs')


def ics_class(ics, rows):
    if ics is None:
        return 'none'
    if ics == 1:
        return '1'
    if ics > rows:
        return 'gt_rows'
    if ics == rows:
        return 'eq_rows'
    return 'divisor' if rows % ics == 0 else 'nondivisor'


def sym_ocs_choices(rng):
    return [['mrl', 0], ['mrl', 2], ['fmrl', 0], ['size', 0], ['size', 1], ['size', -2], ['size', -80],
            ['mrl', rng.randint(0, 200)], ['mrl', 2 * rng.randint(1, 400)], ['abs', 1 << 20], ['size', -rng.randint(1, 400)],
            ['size', -1], ['size', 2], ['mrl', 1], ['size', -81], ['size', -79]]


def mrl_of(history):
    for op in history:
        if op.get('op') == 'new_file' and op.get('fid') == fid_of(history):
            if op.get('sul'):
                return op['sul'].get('max_record_length', 8192)
            return (op.get('kwargs') or {}).get('max_record_length', 8192)
    return 8192


def rows_of(history):
    r = 1
    for op in history:
        d = (op.get('kwargs') or {}).get('data')
        if isinstance(d, dict) and '$arr' in d:
            rc = d['$arr']
            r = max(r, min(rc['shape'][0], rc.get('rows', 10 ** 9)))
    return r


def fid_of(history):
    fids = [op['fid'] for op in history if op.get('op') == 'new_file']
    if 'f0' in fids or not fids:
        return 'f0'
    return fids[-1]


def n_flushes(io):
    return sum(1 for e in io or [] if e['k'] == 'write')


def rejected_for_size(st):
    """The writer's own size limits (subject of C15, not applicable here)."""
    m = st.get('msg', '') if st else ''
    return st is not None and st.get('out') == 'exc' and (
        'cannot be shorter than 12 bytes' in m or 'cannot be less than 24' in m)


def bump(d, k, n=1):
    d[k] = d.get(k, 0) + n


def new_stats(case):
    return {'execs': 0, 'probes': {}, 'faults': {}, 'state_sigs': [], 'skipped': {},
            'digest': digest([case['scenario'], case.get('params')]), 'seams': {}, 'nontrivial': False}


def run(case, ex, extra_ops, stats, env=None):
    """Execute base history + extra ops in a fresh fork; returns (scenario, result)."""
    sc = scenario_with(case, extra_ops, env)
    res = ex(sc)
    stats['execs'] += 1
    stats['seams'].update(res.get('seams') or {})
    return sc, res


def model_and_decode(sc, res, upto_write=None):
    """Model of all ops that returned normally, and the strict decode of the last successful write's file."""
    from .. import model as M, rp66
    st = last_write(res)
    m = M.build(sc['history'], res['steps'])
    dec = rp66.decode_file(st['file']) if st is not None and st.get('out') == 'ok' and st.get('file') is not None else None
    return m, dec, st


def wop(fid, **kw):
    op = {'op': 'write', 'fid': fid, 'path': 'out.dlis'}
    op.update(kw)
    return op


def write_ops(history):
    return [op for op in history if op.get('op') == 'write']


def canon_modulo_set_order(data):
    """File content with the order of the non-origin sets of each logical file factored out (set order follows registry
    insertion order, which no property fixes beyond header -> origins -> other sets -> data)."""
    from .. import rp66
    fr = rp66.parse_framing(data or b'')
    recs, _ = rp66.reassemble(fr)
    lfs, cur = [], None
    for r in recs:
        if r.is_eflr and r.type == 0:
            cur = {'head': [r.key()], 'origin': [], 'sets': [], 'iflr': []}
            lfs.append(cur)
        elif cur is None:
            cur = {'head': [], 'origin': [], 'sets': [], 'iflr': [r.key()]}
            lfs.append(cur)
        elif not r.is_eflr:
            cur['iflr'].append(r.key())
        elif r.type == 1 and r.body[1:8] == b'\x06ORIGIN':
            cur['origin'].append(r.key())
        else:
            cur['sets'].append(r.key())
    return (fr.sul_raw, [(x['head'], x['origin'], sorted(x['sets']), x['iflr']) for x in lfs])


def pick_plans(plans, nmax, pk):
    """At most nmax of the enumerated fault plans: all of them when they fit, a seeded sample in the quick tier,
    a stratified sample (every k-th plan, seeded phase) when a thorough case enumerates more than its budget."""
    if len(plans) <= nmax:
        return plans
    if nmax <= len(pk):
        idxs = sorted(set(int(pk[i % len(pk)] * len(plans)) % len(plans) for i in range(nmax)))
    else:
        step = len(plans) / float(nmax)
        ph = pk[0] * step
        idxs = sorted(set(min(int(ph + j * step), len(plans) - 1) for j in range(nmax)))
    return [plans[i] for i in idxs]
