"""C16 - no-format payloads come back exactly, in order, under their object.

Dimension: payloads are the records most likely to span a flush (several capacities long): flush schedule x record length.
Oracle: NOFMT records decoded by the strict reader vs the model's payload sequence; invariance under record length.
"""
from .. import gen, rp66, invariants as I
from . import common as C
from .c02 import _with_mrl

ID = 'C16'
LEVEL = 'exploration'
LEVEL_TEXT = ('seeded exploration of payload sequences (bytes/bytearray/str, length 0..4 capacities, all byte values) over 1-3 '
              'NO-FORMAT objects x record lengths x output-chunk schedules; byte-exact decode vs model')
LEVEL_NOTE = 'trusted: sim/rp66.py; the model is the literal payload list of the scenario; sampling only'
TIERS = {'quick': {'cases': 3000, 'wall': 40}, 'thorough': {'cases': 400000, 'wall': 780}}
RULE = ('case = seeded payload sequence interleaved over NO-FORMAT objects, written at a small record length with a seeded '
        'output chunk; non-trivial = some payload larger than one segment capacity and >= 2 flushes; distinct = case digest')


def gen_case(rng, tier, avoid):
    tiny_ok = 'tiny_nofmt' not in avoid
    mrl = gen.record_length(rng, small=0.85)
    spec = gen.Spec(rng)
    spec.new_file(mrl=mrl)
    cap = mrl - 8
    lfi = spec.logical_file()
    spec.origin(lfi)
    gen.frame_block(spec, lfi, rng, max_width=6)
    nfs = []
    for k in range(rng.choice([1, 1, 2, 3])):
        h = spec.h('nf')
        nm = gen.name(rng) + str(k)
        spec.emit({'op': 'add', 'lf': lfi['lf'], 'kind': 'no_format', 'h': h, 'name': nm,
                   'kwargs': {'consumer_name': 'C%d' % k} if rng.random() < 0.7 else {}})
        nfs.append((h, nm))
    for _ in range(rng.choice([1, 2, 3, 5, 8])):
        h, nm = gen.pick(rng, nfs)
        p = gen.payload(rng, cap, tiny_ok=tiny_ok)
        if not tiny_ok:
            n = len(p) if isinstance(p, str) else len(p['$text']) if '$text' in p else len(list(p.values())[0]) // 2
            if n + 3 + len(nm) < 12:
                p = {'$bytes': rng.randbytes(12).hex()}
        spec.emit({'op': 'nf_data', 'lf': lfi['lf'], 'nf': {'$ref': h}, 'data': p, 'h': spec.h('nfr')})
    ops = spec.ops
    second = None
    if rng.random() < 0.25:
        # write, then replace a payload (and / or rename its object), then write again: the second file carries what is there now
        recs = [op for op in spec.ops if op.get('op') == 'nf_data']
        second = []
        for op in rng.sample(recs, min(len(recs), rng.choice([1, 2]))):
            second.append({'op': 'set_prop', 'h': op['h'], 'prop': 'data', 'v': gen.payload(rng, cap, tiny_ok=tiny_ok)})
        texts = [op for op in recs if isinstance(op['data'], dict) and '$text' in op['data']]
        if texts and rng.random() < 0.6:
            # run-time text replaced twice after the first write: the first text is no longer referenced by anything when the
            # third one (of the same length) is built - what is written is the text the record holds NOW
            second = []
            for op in rng.sample(texts, min(len(texts), rng.choice([1, 2, 3]))):
                n = len(op['data']['$text'])
                for _ in range(rng.choice([2, 2, 3])):
                    second.append({'op': 'set_prop', 'h': op['h'], 'prop': 'data',
                                   'v': {'$text': ''.join(chr(32 + rng.randrange(95)) for _ in range(n))}})
        if rng.random() < 0.4:
            second.append({'op': 'set_prop', 'h': nfs[0][0], 'prop': 'name', 'v': 'RENAMED-NF'})
        if rng.random() < 0.3 and second and second[0]['prop'] == 'data':
            # a wrong payload (neither text nor bytes) assigned first and corrected by the assignment that follows
            second.insert(0, {'op': 'set_prop', 'h': second[0]['h'], 'prop': 'data', 'v': rng.choice([12, 1.5, ['a']])})
        if rng.random() < 0.3:
            # a failed attempt to write (I/O error or interrupt at a seeded point) after the changes, before the write under test
            second.append(gen.failed_attempt(rng, {'op': 'write', 'fid': 'f0', 'output_chunk_size': 1 << 20}))
    if rng.random() < 0.2:
        ops = gen.noise_file(rng) + ops
    return {'scenario': {'env': {'tz': 'UTC'}, 'history': ops},
            'params': {'ocs': gen.pick(rng, C.sym_ocs_choices(rng)[:3] + C.sym_ocs_choices(rng)[7:10]), 'second': second}}


def check_case(case, ex):
    hist = case['scenario']['history']
    fid, mrl = C.fid_of(hist), C.mrl_of(hist)
    stats = C.new_stats(case)
    out = []
    sym = case['params']['ocs']
    ocs = C.resolve_ocs(sym, mrl, 0)
    sc, res = C.run(case, ex, [C.wop(fid, output_chunk_size=ocs)], stats)
    m, dec, st = C.model_and_decode(sc, res)
    if dec is None:
        C.bump(stats['probes'], 'valid_spec_rejected' if C.rejected_for_size(st) else 'write_failed')
        return {'violations': out, 'stats': stats}
    cap = mrl - 8
    v, n = I.payloads(m, dec, fid, cap=cap)
    out.extend(v)
    fe = [e for e in dec.errors if e.rule.startswith(('framing.', 'reasm.', 'iflr.noformat'))]
    if fe and not out:
        out.append(C.V('C16.undecodable', {'why': fe[0].rule}, **fe[0].detail))
    sizes = [len(p) for lf in dec.lfs for pl in lf.noformat.values() for p in pl]
    for s in sizes:
        C.bump(stats['probes'], 'payload_' + I.len_class(s, cap))
    nfl = C.n_flushes(st.get('io'))
    stats['nontrivial'] = any(s > cap for s in sizes) and nfl >= 3
    # invariance under record length
    big = {'scenario': {'env': case['scenario']['env'], 'history': _with_mrl(hist, 16384)}}
    sc2, res2 = C.run(big, ex, [C.wop(fid, output_chunk_size=1 << 20)], stats)
    st2 = C.last_write(res2)
    if st2 and st2['out'] == 'ok' and st2.get('file') is not None and not out:
        d2 = rp66.decode_file(st2['file'])
        a = [(r[1]['obj'], r[1]['payload']) for lf in dec.lfs for r in lf.records if r[0] == 'nofmt']
        b = [(r[1]['obj'], r[1]['payload']) for lf in d2.lfs for r in lf.records if r[0] == 'nofmt']
        if a != b:
            out.append(C.V('C16.payload_differs', {'what': 'record_length_invariance'}, n_small=len(a), n_big=len(b)))
    stats['state_sigs'].append('cap%d|%s|n%d|fl%d' % (cap if cap < 250 else 999, C.ocs_class(sym), min(len(sizes), 9), min(nfl, 9)))
    if case['params'].get('second'):
        sc3, res3 = C.run(case, ex, [C.wop(fid, output_chunk_size=ocs, path='first.dlis')] + case['params']['second'] +
                          [C.wop(fid, output_chunk_size=ocs, path='second.dlis')], stats)
        m3, dec3, st3 = C.model_and_decode(sc3, res3)
        if dec3 is not None:
            v3, _ = I.payloads(m3, dec3, fid, cap=cap)
            for x in v3:
                x['fp']['write_no'] = 2
            out.extend(v3)
            stats['nontrivial'] = True
            C.bump(stats['probes'], 'rewritten_after_payload_change')
    return {'violations': out, 'stats': stats}
