"""C05 - metadata fidelity: what the user sets is what a reader gets.

Dimension: (i) process time zone (DTIME of naive datetimes), (ii) simulated clock / RNG behind the documented defaults,
(iii) values encoded from process-wide cache entries created by another file (history), (iv) assignment at creation or later,
including after a first write.  Oracle: strict decode vs the specification model (sim/expect.py).
"""
from .. import gen, genmeta, rp66, expect, model as M
from . import common as C

ID = 'C05'
LEVEL = 'exploration'
LEVEL_TEXT = ('seeded exploration over all 22 object types and all their attributes x value domains (boundary-biased sampling) x four '
              'assignment routes x process time zone x simulated clock/RNG defaults x a preceding noise file encoding equal-but-'
              'distinct values x assignment after a first write; decoded objects compared with a model derived from the scenario alone')
LEVEL_NOTE = ('trusted: sim/rp66.py, sim/schema.py (attribute tables transcribed from RP66 V1 and the add_* signatures), zoneinfo for '
              'the expected UTC instant; the value-domain part is ordinary seeded sampling - the simulation adds TZ, clock/RNG, '
              'cache history and write-then-assign histories; naive datetimes stay >= 4 days away from DST transitions')
TIERS = {'quick': {'cases': 3000, 'wall': 45}, 'thorough': {'cases': 200000, 'wall': 840}}
RULE = ('case = seeded specification with 3-20 metadata objects (random attribute subsets, routes, units) in a seeded time zone, '
        'optionally after a noise file and with a second write after later assignments; non-trivial = time zone other than UTC, '
        'or a noise file before, or clock/RNG defaults in use, or a value assigned after the first write; distinct = case digest')


def gen_case(rng, tier, avoid):
    tz = gen.pick(rng, gen.TZS)
    hist = []
    noise = rng.random() < 0.4
    if noise:
        ns = gen.Spec(rng, fid='noise', px='n_', client=1)
        gen.simple_file(rng, spec=ns, mrl=8192, n_lf=1, max_width=2, frames=1, nofmt=False)
        genmeta.populate(ns, ns.lfs[0], rng, n=rng.choice([3, 6]), p_attr=0.6,
                         kinds=['equipment', 'zone', 'parameter', 'computation', 'axis', 'message', 'well_reference_point'])
        hist += ns.ops + [gen.write_op(ns, path='noise.dlis')]
    spec = gen.Spec(rng)
    gen.simple_file(rng, spec=spec, mrl=gen.record_length(rng, small=0.2), n_lf=1, max_width=3, frames=rng.choice([1, 2]),
                    origin_kw={})
    lfi = spec.lfs[0]
    defaults = rng.random() < 0.35
    for op in spec.ops:
        if op.get('op') == 'add' and op['kind'] == 'origin':
            if defaults:
                op['kwargs'].pop('creation_time', None)
                op['kwargs'].pop('file_set_number', None)
                op['now'] = '20%02d-0%d-1%dT%02d:11:12.%06d' % (rng.randint(10, 30), rng.choice([1, 2, 6, 7, 8]),
                                                               rng.randint(0, 9), rng.randint(0, 23), rng.randint(0, 999999))
                op['rng_seed'] = rng.randrange(1 << 30)
            # more origin attributes
            m0 = genmeta.Meta(spec, lfi, rng)
            for kw, label, t in __import__('sim.schema', fromlist=['S']).S['origin']:
                if kw in ('creation_time', 'file_set_number'):
                    continue
                if rng.random() < 0.3:
                    v = m0.value(t)
                    if v is not None:
                        op['kwargs'][kw] = v
    # channel / frame attributes
    mm = genmeta.Meta(spec, lfi, rng)
    for op in spec.ops:
        if op.get('op') == 'add' and op['kind'] == 'channel':
            for kw in ('long_name', 'properties', 'units', 'minimum_value', 'maximum_value', 'source'):
                if rng.random() < 0.3:
                    t = __import__('sim.schema', fromlist=['attr']).attr('channel', kw)[1]
                    if kw == 'source':
                        continue
                    v = mm.value(t)
                    if v is not None and not (isinstance(v, dict) and '$ref' in v):
                        op['kwargs'][kw] = v
        if op.get('op') == 'add' and op['kind'] == 'frame':
            if rng.random() < 0.4:
                op['kwargs']['description'] = genmeta.text(rng)
            if rng.random() < 0.2:
                op['kwargs']['encrypted'] = mm.value('flag')
    genmeta.populate(spec, lfi, rng, n=rng.choice([3, 6, 10, 16]), p_attr=rng.choice([0.3, 0.5, 0.8]))
    hist += spec.ops
    writes = [gen.write_op(spec, path='out1.dlis')]
    later = []
    if rng.random() < 0.3:
        # assign after the first write, then write again
        cands = [op for op in spec.ops if op.get('op') == 'add' and op['kind'] in ('zone', 'equipment', 'tool', 'message', 'comment',
                                                                                  'well_reference_point', 'axis')]
        for op in cands[:rng.choice([1, 2, 3])]:
            tab = __import__('sim.schema', fromlist=['S']).S[op['kind']]
            kw, label, t = gen.pick(rng, tab)
            v = mm.value(t)
            if v is None or op['kind'] == 'zone':
                continue
            an = __import__('sim.schema', fromlist=['ITEM_ATTR']).ITEM_ATTR.get((op['kind'], kw), kw)
            later.append({'op': 'set', 'h': op['h'], 'attr': an, 'kw': kw, 'part': 'value', 'v': v, 'c': 0})
        w2 = gen.write_op(spec, path='out2.dlis')
        if rng.random() < 0.5:
            # an indexed frame: the user pins INDEX-MIN / INDEX-MAX / SPACING after the first write - possibly to the very value
            # that write derived from the data - and then writes other rows: the assigned value is what the file must carry
            from .. import values as _v
            chans = {op['h']: op for op in spec.ops if op.get('op') == 'add' and op['kind'] == 'channel'}
            for fop in [op for op in spec.ops if op.get('op') == 'add' and op['kind'] == 'frame' and 'index_type' in op['kwargs']]:
                c0 = chans.get((fop['kwargs'].get('channels') or [{}])[0].get('$ref'))
                rc = ((c0 or {}).get('kwargs', {}).get('data') or {}).get('$arr')
                if not rc or rc['dtype'][1] != 'f' or len(rc['shape']) != 1 or rc['shape'][0] < 3:
                    continue
                arr = _v.make_array(rc)
                if (arr != arr).any() or not (abs(arr) < 1e30).all():
                    continue
                which = rng.choice(['index_min', 'index_max', 'index_max'])
                if any(k in fop['kwargs'] for k in ('index_min', 'index_max', 'spacing', 'direction')):
                    continue
                val = float(arr.min() if which == 'index_min' else arr.max()) if rng.random() < 0.7 else 4321.5
                cu = c0['kwargs'].get('units')
                if isinstance(cu, str) and rng.random() < 0.4:
                    # the units the first write copied from the index channel, assigned explicitly; then the channel's units change
                    later.append({'op': 'set', 'h': fop['h'], 'attr': which, 'kw': which, 'part': 'units', 'v': cu, 'c': 0,
                                  'pinned_index': True})
                    later.append({'op': 'set', 'h': c0['h'], 'attr': 'units', 'kw': 'units', 'part': 'value',
                                  'v': 'ft' if cu != 'ft' else 'm', 'c': 0})
                else:
                    later.append({'op': 'set', 'h': fop['h'], 'attr': which, 'kw': which, 'part': 'value', 'v': val, 'c': 0,
                                  'pinned_index': True})
                rows_min = min(((o['kwargs'].get('data') or {}).get('$arr') or {}).get('shape', [10 ** 6])[0] for o in chans.values())
                w2['to_idx'] = rng.randint(1, max(rows_min - 1, 1))
                break
        if later:
            writes = [gen.write_op(spec, path='out1.dlis')] + later + [w2]
    if rng.random() < 0.15:
        # the application's logging configuration: the library's warnings silenced (its logger at ERROR, or logging disabled)
        hist = [{'op': 'set_log', 'mode': rng.choice(['error', 'disabled'])}] + hist
    return {'scenario': {'env': {'tz': tz}, 'history': hist + writes},
            'params': {'noise': noise, 'defaults': defaults, 'later': bool(later)}}


def check_case(case, ex):
    hist = case['scenario']['history']
    tz = case['scenario']['env'].get('tz')
    stats = C.new_stats(case)
    out = []
    sc, res = C.run(case, ex, [], stats)
    steps = res['steps']
    wi = [i for i, op in enumerate(hist) if op.get('op') == 'write' and op['fid'] == 'f0']
    Pm = case['params']
    stats['nontrivial'] = bool(tz not in (None, 'UTC') or Pm['noise'] or Pm['defaults'] or Pm['later'])
    for n, i in enumerate(wi):
        st = steps[i]
        if st is None or st['out'] != 'ok' or st.get('file') is None:
            C.bump(stats['probes'], 'valid_spec_rejected' if C.rejected_for_size(st) else 'write_failed')
            if st is not None and st.get('out') == 'exc':
                C.bump(stats['probes'], 'write_exc_%s' % st.get('exc'))
            continue
        m = M.build(hist, steps, upto=i)
        dec = rp66.decode_file(st['file'])
        v, s = expect.compare(m, dec, 'f0', env_tz=tz, clock_live=res['seams'].get('clock', False))
        from .. import invariants as I
        v = I.inventories(m, dec, 'f0', prop='C05') + v        # no object the user did not add, none missing
        for x in v:
            x['fp']['write_no'] = n + 1
            x['fp']['noise_before'] = Pm['noise']
        out.extend(v)
        if dec.errors and not v:
            e = dec.errors[0]
            out.append(C.V('C05.undecodable', {'why': e.rule, 'set': e.detail.get('set')}, **e.detail))
        for k in ('objects', 'attrs_checked', 'absent_checked', 'refs_checked'):
            C.bump(stats['probes'], k, s[k])
    C.bump(stats['probes'], 'tz_' + ('utc' if tz in (None, 'UTC') else 'other'))
    if any(op.get('pinned_index') for op in hist):
        C.bump(stats['probes'], 'index_attribute_pinned_after_first_write')
    stats['sim_time_s'] = 0.0
    stats['state_sigs'].append('%s|n%s|d%s|l%s' % (tz, Pm['noise'], Pm['defaults'], Pm['later']))
    return {'violations': out, 'stats': stats}
