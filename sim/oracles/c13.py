"""C13 - frame index metadata is truthful for the rows written.

Dimension: INDEX-MIN/MAX/SPACING/DIRECTION are derived by write() and persist on the frame object: sequences of writes
of one specification with other windows or other data.  Oracle: decoded FRAME attributes vs statistics of the rows decoded
from the same file (self-consistent), tolerance 0.001 squared-relative transcribed from the code's documentation.
"""
import copy
from .. import gen, rp66, invariants as I, model as M
from . import common as C

ID = 'C13'
LEVEL = 'exploration'
LEVEL_TEXT = ('seeded exploration of index channels (all dtypes, uniform/near-uniform/monotone/constant/noisy/single row) x row '
              'windows x sequences of 1-3 writes with other windows/data x explicit user values; FRAME attributes vs rows of the same file')
LEVEL_NOTE = ('trusted: sim/rp66.py; uniformity classes: squared relative deviation < 1e-4 uniform, > 1e-2 non-uniform, in between '
              'skipped (counted); NaN/inf indexes skipped (undocumented)')
TIERS = {'quick': {'cases': 6000, 'wall': 40}, 'thorough': {'cases': 300000, 'wall': 780}}
RULE = ('case = seeded indexed or row-numbered frame written 1-3 times with seeded windows / replacement data; non-trivial = '
        'an indexed frame written at least twice with different rows; distinct = case digest')


def gen_case(rng, tier, avoid):
    mrl = gen.record_length(rng, small=0.4)
    spec = gen.Spec(rng)
    spec.new_file(mrl=mrl)
    lfi = spec.logical_file()
    spec.origin(lfi)
    rows = rng.choice([1, 2, 3, 4, 6, 9, 14, 20, 33])
    if 'single_row_index' in avoid and rows == 1:
        rows = 2
    indexed = rng.random() < 0.8
    pool = ['f8', 'f8', 'f4', 'i4', 'i2', 'i1', 'u1', 'u2', 'u4']
    dt = gen.pick(rng, pool)
    mode = None
    if 'unsigned_diff' in avoid and dt[0] == 'u':
        mode = gen.pick(rng, ['uniform', 'mono', 'const', 'near'])
    rc, mode = gen.index_recipe(rng, rows, dtype=dt, mode=mode)
    if not indexed:
        rc = gen.array_recipe(rng, rows, dtype='f8' if rng.random() < 0.5 else None,
                              width=None if rng.random() < 0.6 else 2)
    units = rng.choice([None, None, 'm', 'ft', 's'])
    ckw = {'units': units} if units else {}
    if indexed and rc['dtype'][1] == 'u' and rng.random() < 0.25:
        # unsigned source data declared with a signed or float cast: the index characteristics are those of the VALUES written
        ckw['cast_dtype'] = gen.cast_literal(rng, {'u1': ['int16', 'float32'], 'u2': ['int32', 'float64'], 'u4': ['float64', 'int64x']}[
            rc['dtype'][1:]][0 if rng.random() < 0.6 else 1].replace('int64x', 'float64'))
    c0 = spec.channel(lfi, 'IDX', rc, **ckw)
    c1 = spec.channel(lfi, 'VAL', gen.array_recipe(rng, rows, dtype='f8', width=rng.choice([None, 2])))
    fkw = {}
    if indexed:
        fkw['index_type'] = rng.choice(['BOREHOLE-DEPTH', 'VERTICAL-DEPTH', 'NON-STANDARD', 'TIME'])
    user = {}
    if rng.random() < 0.2:
        k = rng.choice(['index_min', 'index_max', 'spacing', 'direction'])
        user[k] = {'index_min': -7.5, 'index_max': 12345.5, 'spacing': 0.125, 'direction': rng.choice(['INCREASING', 'DECREASING'])}[k]
        fkw.update(user)
    spec.frame(lfi, 'FR', [c0, c1], **fkw)
    writes = []
    nw = 1 if 'index_persist' in avoid else rng.choice([1, 1, 2, 2, 3])
    for k in range(nw):
        w = {'path': 'out%d.dlis' % k, 'output_chunk_size': 1 << 20}
        if rows > 1 and rng.random() < 0.6:
            a = rng.randint(0, rows - 1)
            b = rng.randint(a + 1, rows)
            if 'single_row_index' in avoid and b - a == 1 and rows > 1:
                a, b = (a - 1, b) if a else (a, b + 1)
            if a:
                w['from_idx'] = a
            if b < rows or rng.random() < 0.3:
                w['to_idx'] = b
        if k and rng.random() < 0.4:
            rc2, _ = gen.index_recipe(rng, rows, dtype=rc['dtype'][1:] if indexed else None) if indexed else (
                gen.array_recipe(rng, rows, dtype=rc['dtype'][1:], width=rc['shape'][1] if len(rc['shape']) > 1 else None), None)
            if indexed:
                rc2['dtype'] = rc['dtype']
            w['data'] = {'kind': 'dict', 'arrays': [['IDX', rc2]]}
        if rng.random() < 0.3:
            w['input_chunk_size'] = rng.choice([1, 2, 3, rows])
        if rng.random() < 0.15:
            # an attempt that fails first (other rows, I/O error or interrupt at a seeded point): what it derived before failing
            # must not show in the next file
            fa = gen.failed_attempt(rng, w, path='failed%d.dlis' % k)
            if rows > 1 and rng.random() < 0.6:
                a2 = rng.randint(0, rows - 1)
                fa.pop('from_idx', None)
                fa.pop('to_idx', None)
                if a2:
                    fa['from_idx'] = a2
                fa['to_idx'] = rng.randint(a2 + 1, rows)
                if 'single_row_index' in avoid and fa['to_idx'] - a2 == 1:
                    fa.pop('from_idx', None)
                    fa['to_idx'] = rows
            writes.append(fa)
        writes.append(w)
        if indexed and k + 1 < nw and not user and rng.random() < 0.25:
            # the user then assigns, explicitly, the very value this write derived from its rows: it is the user's from now on
            from .. import values as _v
            arr = _v.make_array((w.get('data') or {}).get('arrays', [[None, rc]])[0][1] if w.get('data') else rc)
            sel = arr[w.get('from_idx', 0) or 0: w.get('to_idx')]
            if sel.shape[0] > 0 and sel.ndim == 1 and not (sel != sel).any():
                num = (lambda x: float(x)) if sel.dtype.kind == 'f' else (lambda x: int(x))
                which = rng.choice(['index_min', 'index_max', 'index_min', 'index_max', 'spacing', 'direction'])
                if rng.random() < 0.3:
                    # only the UNITS of a derived attribute are assigned (an annotation): its value stays the library's to derive
                    which = rng.choice(['index_min', 'index_max', 'spacing'])
                    writes.append({'set': {'attr': which, 'part': 'units', 'v': rng.choice(['m', 'ft', 's'])}})
                    continue
                if which == 'direction':
                    val = rng.choice(['INCREASING', 'DECREASING'])      # (equal to the derived one in half of the cases)
                elif which == 'spacing':
                    val = num(sel[1].astype('f8' if sel.dtype.kind == 'f' else 'i8') - sel[0].astype('f8' if sel.dtype.kind == 'f' else 'i8')) \
                        if sel.shape[0] > 1 else 1
                else:
                    val = num(sel.min() if which == 'index_min' else sel.max())
                writes.append({'set': {'attr': which, 'part': 'value', 'v': val}})
    return {'scenario': {'env': {'tz': 'UTC'}, 'history': spec.ops}, 'params': {'writes': writes, 'mode': mode,
                                                                                   'indexed': indexed}}


def _rows_of_write(w, rows):
    return (w.get('from_idx', 0) or 0, w.get('to_idx') if w.get('to_idx') is not None else rows, bool(w.get('data')))


def check_case(case, ex):
    hist = case['scenario']['history']
    fid = C.fid_of(hist)
    stats = C.new_stats(case)
    out = []
    frame_h = next((op['h'] for op in hist if op.get('op') == 'add' and op.get('kind') == 'frame'), None)
    wops = [dict({'op': 'write', 'fid': fid}, **w) if 'set' not in w else dict({'op': 'set', 'h': frame_h}, **w['set'])
            for w in case['params']['writes']]
    sc, res = C.run(case, ex, wops, stats)
    n0 = len(hist)
    rows = C.rows_of(hist)
    seen_windows = []
    k = -1
    for j, wop in enumerate(wops):
        if wop['op'] != 'write':
            C.bump(stats['probes'], 'user_assigned_value_equal_to_derived')
            continue
        k += 1
        st = res['steps'][n0 + j]
        m = M.build(sc['history'], res['steps'], upto=n0 + j)       # the specification as it was when this write was made
        if st is not None and wop.get('failed_attempt') and st.get('faults_fired'):
            for fk in st['faults_fired']:
                C.bump(stats['faults'], fk)
            if st.get('out') != 'ok':
                C.bump(stats['probes'], 'failed_attempt_before_write')
                stats['nontrivial'] = True
                k -= 1
                continue
        if st is None or st.get('out') != 'ok' or st.get('file') is None:
            C.bump(stats['probes'], 'write_%d_failed' % (k + 1))
            continue
        dec = rp66.decode_file(st['file'])
        win = _rows_of_write(wop, rows)
        differs = bool(seen_windows) and any(w != win or win[2] or w[2] for w in seen_windows)
        fp = {'write_no': min(k + 1, 2), 'window': win[0] > 0 or win[1] < rows, 'rows_changed_since_earlier_write': differs}
        v, s = I.index_meta(m, dec, fid, wop, extra_fp=fp)
        out.extend(v)
        for kk in ('skipped_nan', 'band_skipped', 'uniform', 'nonuniform', 'single_row', 'indexed'):
            if s[kk]:
                C.bump(stats['probes'], kk, s[kk])
        if differs and case['params']['indexed']:
            stats['nontrivial'] = True
        seen_windows.append(win)
        stats['state_sigs'].append('%s|w%d|win%s|chg%s' % (case['params']['mode'], k + 1, fp['window'], differs))
    return {'violations': out, 'stats': stats}
