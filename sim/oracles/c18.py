"""C18 - frames and logical files are isolated from one another.

Dimension: interleavings - one client per logical file, the seeded scheduler interleaves their add_* calls on the shared
DLISFile (the file-level registry of sets is shared by all logical files).
Oracle: (distinct set names) byte additivity file(LF0..LFn) == SUL + VRs(LF0 alone) + ... for every interleaving, plus
per-logical-file inventories and rows; (shared/default set names) the write raises, or the decoded inventories are
uncontaminated.
"""
import copy
from .. import gen, genmeta, rp66, invariants as I, model as M
from . import common as C

ID = 'C18'
LEVEL = 'exploration'
LEVEL_TEXT = ('seeded exploration of interleavings of per-logical-file clients (2-3 logical files, 1-3 frames each, distinct / '
              'default / partially shared set names, explicit origin references, origin first or last); byte additivity against '
              'each logical file written alone in a fresh fork, decoded inventories and rows per logical file')
LEVEL_NOTE = ('trusted: sim/rp66.py, projection by logical file; both sides of the additivity relation run the same code; '
              'evidence counts distinct schedule strings')
TIERS = {'quick': {'cases': 2200, 'wall': 45}, 'thorough': {'cases': 200000, 'wall': 840}}
RULE = ('case = seeded interleaving of 2-3 logical-file clients on one DLISFile (or one logical file with several frames); '
        'non-trivial = >= 2 logical files whose add_* calls alternate at least once; distinct = case digest; '
        'distinct interleavings = distinct schedule strings')


def gen_case(rng, tier, avoid):
    n_lf = rng.choice([1, 2, 2, 2, 3])
    naming = rng.choice(['distinct', 'distinct', 'distinct', 'default', 'partial']) if n_lf > 1 else 'default'
    if 'shared_sets' in avoid and n_lf > 1:
        naming = 'distinct'
    mrl = gen.record_length(rng, small=0.4)
    head = [{'op': 'new_file', 'fid': 'f0', 'kwargs': {'max_record_length': mrl}, 'c': 0}]
    progs = []
    # header sequence numbers: increasing, all equal, decreasing or arbitrary - the files are emitted in CREATION order
    seqs = rng.choice([[li + 1 for li in range(n_lf)], [1] * n_lf, [n_lf - li for li in range(n_lf)],
                       [rng.randint(1, 9) for _ in range(n_lf)]])
    for li in range(n_lf):
        spec = gen.Spec(rng, fid='f0', px='L%d_' % li, client=li)
        spec.mrl = mrl
        lfi = {'lf': 'l%d' % li, 'channels': [], 'frames': [], 'nofmt': [], 'origins': [], 'objs': [], 'kw': {}}
        spec.lfs.append(lfi)
        spec.emit({'op': 'add_lf', 'fid': 'f0', 'lf': lfi['lf'], 'kwargs': {'fh_id': 'LF-%d' % li,
                                                                                   'fh_sequence_number': seqs[li]}})
        okw = {}
        if rng.random() < 0.4 and (li or 'cross_lf_backfill' not in avoid):
            okw['origin_reference'] = [3, 7, 130][li % 3] + li
        spec.origin(lfi, nm='ORIGIN-%d' % li, **okw)
        used = set()
        nfr = rng.choice([1, 2, 2, 3]) if n_lf == 1 else rng.choice([1, 1, 2])
        own_sets = nfr > 1 and rng.random() < 0.5      # each frame with its own channel / frame set, channel names reused across frames
        fused = set()
        for k in range(nfr):
            gen.frame_block(spec, lfi, rng, used=set() if own_sets else used, max_width=4,
                            set_name='F%d_%d' % (li, k) if own_sets else None, frame_used=fused)
        if own_sets and rng.random() < 0.4:
            # sets of one type used in the order A, B, A: one more frame goes into the FIRST frame/channel set and takes the
            # name of the frame in the second set - two same-named frames of one logical file, told apart by their copy numbers
            n0 = len(spec.ops)
            gen.frame_block(spec, lfi, rng, used=set(), max_width=4, set_name='F%d_%d' % (li, 0), frame_used=fused)
            frames_b = [op for op in spec.ops[:n0] if op.get('op') == 'add' and op['kind'] == 'frame' and op['lf'] == lfi['lf']
                        and op['kwargs'].get('set_name') == 'F%d_%d' % (li, 1)]
            for op in spec.ops[n0:]:
                if op.get('op') == 'add' and op['kind'] == 'frame' and frames_b:
                    op['name'] = frames_b[0]['name']
        if rng.random() < 0.4:
            spec.no_format(lfi, 'NF', [gen.payload(rng, mrl - 8) for _ in range(rng.choice([1, 2]))])
        genmeta.populate(spec, lfi, rng, n=rng.choice([0, 1, 3]), routes=False, p_attr=0.3,
                         kinds=['zone', 'axis', 'parameter', 'tool', 'equipment', 'comment', 'splice'])
        ops = spec.ops
        if naming == 'distinct' or (naming == 'partial' and rng.random() < 0.5):
            for op in ops:
                if op.get('op') == 'add':
                    op['kwargs'].setdefault('set_name', 'S%d' % li)
        elif naming == 'partial':
            for op in ops:
                if op.get('op') == 'add' and op['kind'] in ('origin', 'channel', 'frame'):
                    op['kwargs'].setdefault('set_name', 'S%d' % li)
        order = rng.choice(['as_is', 'as_is', 'origin_last', 'shuffle'])
        if 'cross_lf_backfill' in avoid and n_lf > 1:
            order = 'as_is'
        if order == 'origin_last':
            o = [x for x in ops if x.get('kind') == 'origin']
            ops = [x for x in ops if x.get('kind') != 'origin'] + o
        elif order == 'shuffle':
            ops = ops[:1] + gen.toposhuffle(rng, ops[1:])
        if rng.random() < 0.2 and 'ghost_object' not in avoid:
            # a call the library rejects, made on this logical file while the others are being built: it concerns nobody else
            from . import c20
            sb = c20.schema_bad(rng, lfi, li)
            if sb:
                bop = dict(sb[0], h='L%d_bad' % li, c=li)
                if naming != 'default':
                    bop['kwargs'] = dict(bop['kwargs'], set_name='S%d' % li)
                    if n_lf > 1 and rng.random() < 0.5:
                        # the rejected call names the set of ANOTHER logical file: nothing of this one ever gets into that set
                        bop['kwargs']['set_name'] = 'S%d' % rng.choice([x for x in range(n_lf) if x != li])
                ops = list(ops)
                ops.insert(rng.randint(2, len(ops)), bop)
        progs.append(ops)
    hist, sched = list(head), []
    idx = [0] * n_lf
    while any(idx[c] < len(progs[c]) for c in range(n_lf)):
        live = [c for c in range(n_lf) if idx[c] < len(progs[c])]
        # logical files are emitted in creation order: keep add_lf ops in client order
        c = gen.pick(rng, live)
        if idx[c] == 0 and any(idx[d] == 0 for d in range(c)):
            c = min(d for d in range(n_lf) if idx[d] == 0)
        for _ in range(rng.choice([1, 1, 2, 3, 6])):
            if idx[c] < len(progs[c]):
                hist.append(progs[c][idx[c]])
                idx[c] += 1
                sched.append(c)
    return {'scenario': {'env': {'tz': 'UTC'}, 'history': hist},
            'params': {'schedule': ''.join(map(str, sched)), 'naming': naming, 'n_lf': n_lf,
                       'ics': rng.choice([None, 1, 3]), 'ocs': gen.pick(rng, [['mrl', 0], ['mrl', 100], ['abs', 1 << 20]])}}


def alone(hist, lf):
    """History of logical file `lf` alone in its own DLISFile."""
    out = []
    for op in hist:
        o = op.get('op')
        if o == 'new_file':
            out.append(op)
        elif o == 'add_lf' and op['lf'] == lf:
            out.append(op)
        elif o in ('add', 'nf_data') and op['lf'] == lf:
            out.append(op)
    return out


def check_case(case, ex):
    hist = case['scenario']['history']
    Pm = case['params']
    fid, mrl = 'f0', C.mrl_of(hist)
    stats = C.new_stats(case)
    out = []
    kw = {'output_chunk_size': C.resolve_ocs(Pm['ocs'], mrl, 0)}
    if Pm.get('ics'):
        kw['input_chunk_size'] = Pm['ics']
    sc, res = C.run(case, ex, [C.wop(fid, **kw)], stats)
    m, dec, st = C.model_and_decode(sc, res)
    sched = Pm['schedule']
    alternations = sum(1 for a, b in zip(sched, sched[1:]) if a != b)
    stats['interleaving'] = sched
    n_lf = Pm['n_lf']
    stats['nontrivial'] = n_lf >= 2 and alternations >= 2
    fp = {'n_lf': n_lf, 'naming': Pm['naming'], 'alternating': alternations >= 2}
    lfs = [op['lf'] for op in hist if op.get('op') == 'add_lf']
    C.bump(stats['probes'], 'naming_' + Pm['naming'])
    if st is None:
        return {'violations': out, 'stats': stats}
    shared = _shares_sets(m, fid)
    if st['out'] != 'ok':
        if shared:
            C.bump(stats['probes'], 'shared_set_rejected')
        elif C.rejected_for_size(st):
            C.bump(stats['probes'], 'valid_spec_rejected')
        else:
            # distinct sets, yet the combined file is refused: compare with the logical files alone
            oks = []
            for lf in lfs:
                _, r1 = C.run({'scenario': {'env': case['scenario']['env'], 'history': alone(hist, lf)}}, ex, [C.wop(fid, **kw)], stats)
                oks.append((C.last_write(r1) or {}).get('out'))
            if all(o == 'ok' for o in oks):
                out.append(C.V('C18.not_additive', dict(fp, why='combined_write_raises'), exc=st.get('exc'), msg=st.get('msg')))
        return {'violations': out, 'stats': stats}
    F = st['file']
    # inventories: every object in exactly the logical file it was added to
    v = _inventories(m, dec, fid, fp)
    out.extend(v)
    if shared and not v:
        C.bump(stats['probes'], 'shared_set_written_uncontaminated')
    # rows per frame, numbering from 1
    rv, _ = I.rows(m, dec, fid, sc['history'][-1], prop='C18', extra_fp=fp)
    for x in rv:
        x['rule'] = {'C18.row_count': 'C18.row_in_wrong_frame', 'C18.frame_number': 'C18.frame_numbering',
                     'C18.slot_bits': 'C18.row_in_wrong_frame', 'C18.frame_ref': 'C18.row_in_wrong_frame'}.get(x['rule'], x['rule'])
    out.extend(rv)
    # logical files in creation order, each opening with its own header
    ids = [(_hv(lf.header) if lf.header else None) for lf in dec.lfs]
    want_ids = [(m.lfs[l].kwargs.get('fh_id', 'FILE-HEADER')).ljust(65) for l in lfs]
    if ids != want_ids:
        out.append(C.V('C18.lf_order', fp, got=ids, want=want_ids))
    # additivity (only meaningful when no set is shared)
    if not shared and n_lf >= 2 and not out:
        parts = []
        for lf in lfs:
            _, r1 = C.run({'scenario': {'env': case['scenario']['env'], 'history': alone(hist, lf)}}, ex, [C.wop(fid, **kw)], stats)
            s1 = C.last_write(r1)
            if s1 is None or s1['out'] != 'ok':
                parts = None
                C.bump(stats['skipped'], 'alone_write_failed')
                break
            parts.append(s1['file'])
        if parts:
            want = parts[0][:80] + b''.join(p[80:] for p in parts)
            if F != want:
                from .c14 import _locate
                out.append(C.V('C18.not_additive', fp, where=_locate(F, want), len_got=len(F), len_want=len(want)))
            C.bump(stats['probes'], 'additivity_checked')
    stats['state_sigs'].append('lf%d|%s|alt%d' % (n_lf, Pm['naming'], min(alternations, 9)))
    return {'violations': out, 'stats': stats}


def _hv(h):
    try:
        return h.objects[0].attrs['ID'].values[0]
    except Exception:
        return None


def _shares_sets(m, fid):
    seen = {}
    for lf in m.files[fid].lfs:
        for st, sn, objs in lf.sets():
            k = (st, sn)
            if k in seen and seen[k] != lf.lf:
                return True
            seen[k] = lf.lf
    return False


def _inventories(m, dec, fid, fp):
    out = []
    mf = m.files[fid]
    if len(dec.lfs) != len(mf.lfs):
        return [C.V('C18.lf_order', dict(fp, why='count'), got=len(dec.lfs), want=len(mf.lfs))]
    for li, (lfm, lfd) in enumerate(zip(mf.lfs, dec.lfs)):
        want = {}
        for st, sn, objs in lfm.sets():
            want[(st, sn)] = [o.name for o in objs]
        got = {}
        for s in lfd.sets:
            if s.type == 'FILE-HEADER':
                continue
            got.setdefault((s.type, s.name), []).extend(o.name[2] for o in s.objects)
        if want != got:
            extra = {str(k): v for k, v in got.items() if want.get(k) != v}
            miss = {str(k): v for k, v in want.items() if got.get(k) != v}
            out.append(C.V('C18.object_in_wrong_lf', dict(fp, lf=li), got=extra, want=miss))
            break
    return out
