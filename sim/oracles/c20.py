"""C20 - a rejected call leaves no trace in later files.

Dimension: histories with failures - rejected add_*/assignment calls (before or after the object registered itself) and
writes that fail by data error, injected I/O fault (open/write/close) or interrupt at an arbitrary line - followed by recovery
once faults stop.  Oracle: registries unchanged by a rejected call; next successful write == projection without the rejected
ops and failed writes, in a fresh fork; after the last fault the retry returns normally in that one call (bounded liveness).
"""
import copy
from .. import values, gen, genmeta, project as P
from . import common as C
from .c14 import _locate

ID = 'C20'
LEVEL = 'fault_enumeration'
LEVEL_TEXT = ('fault enumeration for the write part: a fault-free run yields the I/O event list and line count of the write, then '
              'F1/F2/F3 are injected at every I/O event (thorough, stratified to 400 plans per case when a run has more; a seeded sample in quick) and interrupts at seeded line events (thorough: stratified sweeps over all line events of the write in some cases), '
              'each followed by a fault-free retry; exploration for the rejected-call part (12 rejection classes x positions)')
LEVEL_NOTE = ('trusted: projection builder, SimFile fault model (errors raised before effect or after a real partial write), '
              'sys.settrace line events as interrupt points; bounded liveness = the retry completes within its own call')
TIERS = {'quick': {'cases': 800, 'wall': 45, 'faults_per_case': 5}, 'thorough': {'cases': 60000, 'wall': 840, 'faults_per_case': 400}}
RULE = ('case = seeded specification with 0-3 rejected calls inserted, written, then (fault part) re-executed once per enumerated '
        'fault point with a retry; non-trivial = at least one call was actually rejected or one fault actually fired before the '
        'compared write; distinct = case digest')
def bad_channel_with_data(rng, lfi, n):
    """add_channel(data=<valid array>, <one invalid attribute>): rejected after the arguments were accepted one by one."""
    rows = 4
    bad = rng.choice([{'properties': ['NOT-A-PROPERTY']}, {'dimension': [1.5]}, {'axis': [{'$ref': lfi['origins'][0]}]},
                      {'minimum_value': 'low'}, {'long_name': 12}])
    kw = dict({'data': {'$arr': {'dtype': '<f8', 'shape': [rows], 'kind': 'ramp', 'start': -999.25, 'step': 0}}}, **bad)
    return {'op': 'add', 'lf': lfi['lf'], 'h': 'bad%d' % n, 'c': 0, 'bad': 'channel_with_data', 'kind': 'channel',
            'name': 'GHOSTD', 'kwargs': kw}


def schema_bad(rng, lfi, n):
    """A rejected call for an arbitrary object type: one attribute gets a value its kind cannot accept."""
    from .. import schema
    kind = gen.pick(rng, [k for k in schema.kinds() if k not in ('origin', 'frame', 'channel')])
    cands = []
    for kw, label, t in schema.S[kind]:
        base = t.split(':')[0]
        if base in ('text', 'texts'):
            cands.append((kw, rng.choice([12, {'$obj': 'object'}])))
        elif base in ('num', 'nums', 'numsN', 'int'):
            cands.append((kw, rng.choice(['tall', {'$obj': 'object'}])))
        elif base in ('ref', 'refs'):
            cands.append((kw, [{'$ref': lfi['origins'][0]}] if base == 'refs' else {'$ref': lfi['origins'][0]}))
        elif base == 'enum':
            cands.append((kw, 'NOT-A-MEMBER'))
        elif base == 'status':
            cands.append((kw, rng.choice([5, 0.5])))
        elif base in ('dtime',):
            cands.append((kw, rng.choice(['not a date', 12])))
        elif base == 'dim':
            cands.append((kw, [1.5]))
    # units on an attribute that cannot carry units (rejected with another exception class than a wrong value)
    for kw, label, t in schema.S[kind]:
        base = t.split(':')[0]
        if not schema.units_allowed(t) and base in ('text', 'ident', 'status', 'dim', 'enum_soft', 'texts'):
            ok = {'text': 'x', 'texts': ['x'], 'ident': 'ID', 'status': 1, 'dim': [2], 'enum_soft': 'Tool'}[base]
            cands.append((kw, {rng.choice(['$setup', '$dict']): {'value': ok, 'units': 'm'}}))
    if not cands:
        return None
    kw, v = gen.pick(rng, cands)
    name = 'SB%d' % rng.randint(0, 2)
    return ({'op': 'add', 'lf': lfi['lf'], 'h': 'bad%d' % n, 'c': 0, 'bad': 'schema_%s' % kind, 'kind': kind, 'name': name,
             'kwargs': {kw: v}}, (kind, name))


BAD_KINDS = ['bad_enum', 'bad_status', 'bad_text_type', 'bad_ref_class', 'bad_cast_dtype', 'bad_name_type', 'dup_dataset',
             'bad_frame_channels', 'bad_data_type', 'bad_origin_ref_type', 'bad_units', 'bad_num']


def bad_op(rng, kind, lfi, spec, n):
    """A call built to be rejected; shares its name with a later valid object so that a ghost would shift copy numbers."""
    lf = lfi['lf']
    h = 'bad%d' % n
    base = {'op': 'add', 'lf': lf, 'h': h, 'c': 0, 'bad': kind}
    chan = lfi['channels'][0]['h'] if lfi['channels'] else None
    if kind == 'bad_enum':
        return dict(base, kind='zone', name='Z', kwargs={'domain': 'NOT-A-DOMAIN'}), ('zone', 'Z')
    if kind == 'bad_status':
        return dict(base, kind='equipment', name='EQ', kwargs={'status': rng.choice([7, 0.5])}), ('equipment', 'EQ')
    if kind == 'bad_text_type':
        return dict(base, kind='tool', name='T', kwargs={'description': 12}), ('tool', 'T')
    if kind == 'bad_ref_class' and chan:
        return dict(base, kind='tool', name='T', kwargs={'parts': [{'$ref': chan}]}), ('tool', 'T')
    if kind == 'bad_cast_dtype':
        return dict(base, kind='channel', name='GHOST', kwargs={'cast_dtype': {'$dtype': 'int64'}}), ('channel', 'GHOST')
    if kind == 'bad_name_type':
        return dict(base, kind='zone', name=123, kwargs={}), ('zone', 'Z')
    if kind == 'dup_dataset' and lfi['channels']:
        return dict(base, kind='channel', name='OTHER', kwargs={'dataset_name': lfi['channels'][0]['name']}), ('channel', 'OTHER')
    if kind == 'bad_frame_channels':
        return dict(base, kind='frame', name='FX', kwargs={'channels': [] if rng.random() < 0.5 else ['not a channel']}), ('frame', 'FX')
    if kind == 'bad_data_type':
        return dict(base, kind='channel', name='GHOST', kwargs={'data': [1, 2, 3]}), ('channel', 'GHOST')
    if kind == 'bad_origin_ref_type':
        return dict(base, kind='axis', name='AX', kwargs={'origin_reference': 'x'}), ('axis', 'AX')
    if kind == 'bad_units':
        return dict(base, kind='axis', name='AX', kwargs={'spacing': {'$dict': {'value': 1.5, 'units': 5}}}), ('axis', 'AX')
    if kind == 'bad_num':
        return dict(base, kind='equipment', name='EQ', kwargs={'height': 'tall'}), ('equipment', 'EQ')
    return dict(base, kind='zone', name='Z', kwargs={'domain': 'NOT-A-DOMAIN'}), ('zone', 'Z')


def gen_case(rng, tier, avoid):
    spec = gen.Spec(rng)
    gen.simple_file(rng, spec=spec, mrl=gen.record_length(rng, small=0.5), n_lf=1, max_width=4, frames=rng.choice([1, 1, 2]))
    lfi = spec.lfs[0]
    genmeta.populate(spec, lfi, rng, n=rng.choice([0, 2, 4]), routes=False, p_attr=0.3,
                     kinds=['zone', 'axis', 'equipment', 'tool', 'comment', 'message'])
    ops = list(spec.ops)
    nb = 0 if 'ghost_object' in avoid else rng.choice([0, 1, 1, 2, 3])
    bad_classes = []
    for n in range(nb):
        kind = gen.pick(rng, BAD_KINDS + ['schema'] * 6 + ['channel_with_data'] * 3)
        sb = schema_bad(rng, lfi, n) if kind == 'schema' else None
        if kind == 'channel_with_data':
            sb = (bad_channel_with_data(rng, lfi, n), ('channel', 'GHOSTD'))
        if sb is not None:
            bop, (vk, vname) = sb
            kind = bop['bad']
        else:
            if kind == 'schema':
                kind = 'bad_enum'
            bop, (vk, vname) = bad_op(rng, kind, lfi, spec, n)
        pos = rng.randint(3, len(ops))
        ops.insert(pos, bop)
        bad_classes.append(kind)
        if rng.random() < 0.8:
            # a valid object of the same type and name added later: a ghost would give it copy number 1
            h = 'after_bad%d' % n
            if vk == 'channel':
                pass
            elif vk == 'frame':
                pass
            else:
                kw = {}
                ops.insert(rng.randint(pos + 1, len(ops)), {'op': 'add', 'lf': lfi['lf'], 'kind': vk, 'h': h, 'name': vname,
                                                            'kwargs': kw, 'c': 0})
    if rng.random() < 0.35:
        # a call rejected by an interrupt arriving at an arbitrary line inside add_* (after or before the object registered itself)
        cands = [op for op in ops if op.get('op') == 'add' and not op.get('bad') and op['kind'] not in ('origin', 'channel', 'frame')]
        for op in cands[:rng.choice([1, 2])]:
            twin = copy.deepcopy(op)
            twin['h'] = 'intr_' + op['h']
            twin['bad'] = 'interrupted_add'
            twin['faults'] = [{'kind': 'interrupt', 'at_line': rng.randint(1, 80)}]
            ops.insert(ops.index(op), twin)
    if rng.random() < 0.4:
        # rejected later assignments (attribute values, units, name, origin reference, cast dtype of existing objects)
        for _ in range(rng.choice([1, 1, 2])):
            pos = rng.randint(4, len(ops))
            bop = gen.rejected_assignment(rng, ops[:pos])
            if bop:
                ops.insert(pos, bop)
    if rng.random() < 0.15:
        # the caller has seeded numpy's global random state; an add_origin that is rejected must not draw from it: the default
        # FILE-SET-NUMBER of the origin added next is the one it would have got without the rejected call
        pos = rng.randint(3, len(ops))
        ops[pos:pos] = [
            {'op': 'seed_rng', 'seed': rng.randrange(1 << 30), 'c': 0},
            {'op': 'add', 'lf': lfi['lf'], 'kind': 'origin', 'h': 'bad_rng_origin', 'name': 'REJECTED-ORIGIN', 'c': 0,
             'bad': 'origin_rejected_after_seed', 'rng_keep': True,
             'kwargs': rng.choice([{'creation_time': 'garbage'}, {'origin_reference': 'x'}, {'file_type': 12}])},
            {'op': 'add', 'lf': lfi['lf'], 'kind': 'origin', 'h': 'o_after_rng', 'name': 'ORIGIN-AFTER', 'c': 0, 'rng_keep': True,
             'kwargs': {'creation_time': {'$dt': '2020-03-04T05:06:07', 'tz': None}}}]
    if rng.random() < 0.25:
        # the defining origin comes late (objects added before it take its reference then), and a FIRST add_origin - asking for
        # an explicit reference - was rejected before it: nothing of the rejected call may show in what the objects reference
        oi = next(i for i, op in enumerate(ops) if op.get('op') == 'add' and op['kind'] == 'origin' and not op.get('bad'))
        oop = ops[oi]
        if not any(op.get('kind') == 'origin' or op.get('op') != 'add' for op in ops[oi + 1:]):
            rest = ops[oi + 1:]
            lim = next((i for i, op in enumerate(rest) if oop['h'] in values.refs_in(op.get('kwargs'))), len(rest))
            cut = rng.randint(min(1, lim), lim)
            rej = {'op': 'add', 'lf': lfi['lf'], 'kind': 'origin', 'h': 'rej_first_origin', 'name': 'REJECTED-FIRST', 'c': 0,
                   'bad': 'first_origin_rejected',
                   'kwargs': dict(rng.choice([{'creation_time': 'garbage'}, {'file_type': 12}, {'run_number': 'x'}]),
                                  origin_reference=rng.choice([77, 5, 200]))}
            head = rest[:cut]
            head.insert(rng.randint(0, len(head)), rej)
            ops = ops[:oi] + head + [oop] + rest[cut:]
    mode = rng.choice(['plain', 'io_fault', 'io_fault', 'interrupt', 'data_error'])
    ext = None
    if rng.random() < 0.25 and mode != 'data_error':
        # all valid channels get their data at write time from a non-dict source; a rejected add_channel(data=...) must not matter
        keep = [op for op in ops if op.get('bad')]
        good, ext = gen.externalize([op for op in ops if not op.get('bad')], rng.choice(['h5', 'struct']), rng, extras=False)
        merged, gi = [], iter(good)
        for op in ops:
            merged.append(op if op.get('bad') else next(gi))
        ops = merged
    if ext is None and mode != 'data_error' and rng.random() < 0.3:
        # history: the file is written once (datasets possibly of other element types), then assignments are rejected, then the
        # write under test brings the final data: what the first write derived must not be frozen by a rejected assignment
        good, ext = gen.externalize([op for op in ops if not op.get('bad')], 'dict', rng, extras=False, permute=False)
        merged, gi = [], iter(good)
        for op in ops:
            merged.append(op if op.get('bad') else next(gi))
        ops = merged
        first = {'op': 'write', 'fid': spec.fid, 'path': 'first.dlis', 'output_chunk_size': 1 << 20,
                 'data': gen.data_variant(rng, ext) or ext}
        ops.append(first)
        for _ in range(rng.choice([1, 2])):
            bop = gen.rejected_assignment(rng, ops, p_channel=0.8)
            if bop:
                ops.append(bop)
    params = {'mode': mode, 'ocs': gen.pick(rng, [['mrl', 0], ['mrl', 64], ['abs', 1 << 20]]), 'bad': bad_classes,
              'pick': [rng.random() for _ in range(24)], 'n_faults': TIERS[tier]['faults_per_case']}
    if mode == 'data_error':
        params['drop_dataset'] = rng.random()
    if ext is not None:
        params['data'] = ext
    return {'scenario': {'env': {'tz': 'UTC'}, 'history': ops}, 'params': params}


def check_case(case, ex):
    hist = case['scenario']['history']
    Pm = case['params']
    fid, mrl = C.fid_of(hist), C.mrl_of(hist)
    stats = C.new_stats(case)
    out = []
    ocs = C.resolve_ocs(Pm['ocs'], mrl, 0)
    w = C.wop(fid, output_chunk_size=ocs, path='out.dlis', count_lines=True)
    if Pm.get('data'):
        w['data'] = Pm['data']
    sc, res = C.run(case, ex, [w], stats)
    steps = res['steps']
    # ---- immediate: registries unchanged by a rejected call
    prev_inv, prev_lf = None, None
    n_rej = 0
    for op, st in zip(sc['history'], steps):
        if st is None:
            continue
        inv = st.get('inv')
        if op.get('op') not in ('add', 'set', 'set_prop'):
            continue
        if op.get('op') == 'add' and prev_lf != op.get('lf'):
            prev_inv, prev_lf = None, op.get('lf')
        if st.get('out') == 'exc':
            n_rej += 1
            C.bump(stats['probes'], 'rejected_' + str(op.get('bad') or 'valid_op'))
            if inv is not None and prev_inv is not None and inv != prev_inv:
                out.append(C.V('C20.registry_changed_by_rejected_call', {'bad': op.get('bad'), 'kind': op.get('kind')},
                               before=prev_inv, after=inv, exc=st.get('exc')))
        if inv is not None:
            prev_inv = inv
    k = len(hist)
    st = steps[k]
    # ---- deferred: the write equals the projection without the rejected calls
    proj = P.project(sc['history'], steps, k, path='proj.dlis')
    r2 = ex({'env': case['scenario']['env'], 'history': proj})
    stats['execs'] += 1
    st2 = C.last_write(r2)
    fp = {'bad': sorted(set(op.get('bad') for op, s in zip(hist, steps) if s and s.get('out') == 'exc' and op.get('bad')))}
    if st2 is None or st is None:
        return {'violations': out, 'stats': stats}
    if st['out'] != st2['out']:
        out.append(C.V('C20.outcome_differs_after_rejected_call', dict(fp, got=st['out']), exc=st.get('exc') or st2.get('exc'),
                       msg=st.get('msg') or st2.get('msg')))
    elif st['out'] == 'ok' and st.get('file') != st2.get('file'):
        if C.canon_modulo_set_order(st['file']) == C.canon_modulo_set_order(st2['file']):
            # only the order of sets differs (the rejected call created its - now empty - set first): nothing of the rejected
            # call appears in the file, identities are unchanged; the statement does not fix set order
            C.bump(stats['probes'], 'only_set_order_differs')
        else:
            out.append(C.V('C20.bytes_differ_after_rejected_call', fp, where=_locate(st['file'], st2['file'])))
    if n_rej:
        stats['nontrivial'] = True
    if st['out'] != 'ok' or st2['out'] != 'ok':
        if C.rejected_for_size(st):
            C.bump(stats['probes'], 'valid_spec_rejected')
        return {'violations': out, 'stats': stats}
    R = st2['file']
    mode = Pm['mode']
    io = st.get('io') or []
    lines = st.get('lines') or 0
    plans = []
    if mode == 'io_fault':
        for ev in io:
            if ev['k'] == 'open':
                plans.append([{'kind': 'open_fail', 'at_event': ev['i'], 'errno': 28}])
                plans.append([{'kind': 'open_fail', 'at_event': ev['i'], 'errno': 13}])
            elif ev['k'] == 'write':
                plans.append([{'kind': 'write_fail', 'at_event': ev['i'], 'partial': ev['n'] // 2, 'errno': 28}])
                plans.append([{'kind': 'write_fail', 'at_event': ev['i'], 'partial': 0, 'errno': 5}])
                plans.append([{'kind': 'short_write', 'at_event': ev['i'], 'partial': max(ev['n'] // 2, 1)}])
            else:
                plans.append([{'kind': 'close_fail', 'at_event': ev['i'], 'lose': 0}])
                plans.append([{'kind': 'close_fail', 'at_event': ev['i'], 'lose': 3}])
    elif mode == 'interrupt' and lines:
        if Pm.get('n_faults', 0) >= 100 and len(Pm['pick']) > 1 and Pm['pick'][1] < 0.15:
            # thorough, some cases: a stratified sweep over the line events of the write (every k-th line, random phase), <= 100 points
            k = max(lines // 100, 1)
            ph = int(Pm['pick'][0] * k)
            for ln in range(1 + ph, lines + 1, k):
                plans.append([{'kind': 'interrupt', 'at_line': ln}])
        else:
            for p in Pm['pick']:
                plans.append([{'kind': 'interrupt', 'at_line': 1 + int(p * (lines - 1))}])
    elif mode == 'data_error':
        plans.append('data_error')
    nmax = Pm.get('n_faults', 5)
    plans = C.pick_plans(plans, nmax, Pm['pick'])
    for plan in plans:
        if plan == 'data_error':
            # strip the inline data of one channel: the write fails for lack of a dataset; the retry supplies it
            h2 = copy.deepcopy(hist)
            chans = [op for op in h2 if op.get('op') == 'add' and op.get('kind') == 'channel' and 'data' in (op.get('kwargs') or {})
                     and not op.get('bad')]
            if not chans:
                continue
            ch = chans[int(Pm['drop_dataset'] * len(chans)) % len(chans)]
            rc = ch['kwargs'].pop('data')['$arr']
            dn = ch['kwargs'].get('dataset_name', ch['name'])
            w1 = C.wop(fid, output_chunk_size=ocs, path='out.dlis')
            w2 = C.wop(fid, output_chunk_size=ocs, path='out.dlis', data={'kind': 'dict', 'arrays': [[dn, rc]]})
            base = {'scenario': {'env': case['scenario']['env'], 'history': h2}}
            kind = 'data_error'
            _, r0 = C.run(base, ex, [w2], stats)
            ref_ok = C.last_write(r0)
            if ref_ok is None or ref_ok['out'] != 'ok':
                continue
            want_file = ref_ok['file']
        else:
            w1 = C.wop(fid, output_chunk_size=ocs, path='out.dlis', faults=plan)
            w2 = C.wop(fid, output_chunk_size=ocs, path='out.dlis')
            if Pm.get('data'):
                w1['data'] = w2['data'] = Pm['data']
            base = case
            kind = plan[0]['kind']
            want_file = st['file']       # the same history, written fault-free in another fork
        scf, rf = C.run(base, ex, [w1, w2], stats)
        s1, s2 = rf['steps'][-2], rf['steps'][-1]
        fired = kind == 'data_error' or kind in (s1.get('faults_fired') or [])
        if not fired:
            C.bump(stats['probes'], 'fault_did_not_fire')
            continue
        C.bump(stats['faults'], kind)
        if s1['out'] == 'ok':
            C.bump(stats['probes'], 'faulted_write_returned_normally')      # C12's subject, not C20's
            continue
        stats['nontrivial'] = True
        ffp = dict(fp, failure=kind)
        if s2['out'] != 'ok':
            out.append(C.V('C20.retry_failed_after_heal', ffp, exc=s2.get('exc'), msg=s2.get('msg'), first=s1.get('exc'),
                           fault=plan if plan != 'data_error' else None))
            continue
        want = want_file
        if s2.get('file') != want:
            out.append(C.V('C20.bytes_differ_after_failed_write', ffp, where=_locate(s2.get('file') or b'', want or b''),
                           fault=plan if plan != 'data_error' else None))
        stats['state_sigs'].append('%s|rej%d|%s' % (kind, min(n_rej, 3), s1.get('exc')))
    return {'violations': out, 'stats': stats}
