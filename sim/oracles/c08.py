"""C08 - a frame's channel descriptors match the layout of its data records.

Dimension: REPRESENTATION-CODE, DIMENSION and ELEMENT-LIMIT are derived by write() and stay on the channel objects: sequences
of writes with other data (dtype / width), source kinds, channels shared between frames.
Oracle: on every file of every history: code == code of the dtype written (or cast), DIMENSION == per-row shape, ELEMENT-LIMIT
bounds it, and len(FDATA body) == len(OBNAME) + len(UVARI) + sum(size(code) * prod(dimension)).
"""
import copy
from .. import gen, rp66, invariants as I, model as M
from . import common as C
from .c03 import SAFE_CASTS

ID = 'C08'
LEVEL = 'exploration'
LEVEL_TEXT = ('seeded exploration of frames (dtype, width, cast dtype, user dimension / element limit consistent or not, channel '
              'shared by two frames) x source kinds x a second write with data of another dtype or width; descriptor / record-length '
              'invariants on every file written')
LEVEL_NOTE = ('trusted: sim/rp66.py; single-write dtype/width sweeps are ordinary sampling, the simulation adds write sequences and '
              'source kinds; a second write that raises (width change) is accepted, a file that is written must be self-consistent')
TIERS = {'quick': {'cases': 5000, 'wall': 40}, 'thorough': {'cases': 300000, 'wall': 780}}
RULE = ('case = seeded frames with optional user descriptors and casts, written once or twice (second time with data of another '
        'dtype/width); non-trivial = a second write with changed data, or a shared channel, or a non-inline source; distinct = digest')


def gen_case(rng, tier, avoid):
    mrl = gen.record_length(rng, small=0.3)
    spec = gen.Spec(rng)
    spec.new_file(mrl=mrl)
    lfi = spec.logical_file()
    spec.origin(lfi)
    rows = rng.choice([1, 2, 4, 7, 12])
    r_b = rng.random()
    if r_b < 0.05:
        rows = rng.choice([127, 128, 129, 200])                  # frame numbers across the 1/2-byte UVARI boundary
    elif r_b < 0.0515:
        rows = rng.choice([16383, 16384, 16385])                 # ... and the 2/4-byte one
    n_ch = rng.choice([1, 2, 3]) if rng.random() > 0.008 or rows > 200 else rng.choice([127, 128, 130])   # CHANNELS count across 127/128
    fh, chans, recs, _ = gen.frame_block(spec, lfi, rng, rows=rows, n_ch=n_ch,
                                         max_width=rng.choice([3, 9, 30]) if rows < 1000 else 2, index=False)
    if rows <= 12 and rng.random() < 0.04:
        # a wide channel: DIMENSION / ELEMENT-LIMIT (UVARI values) at 127/128/255/256 and, rarely, 16383/16384/16385
        wide = rng.choice([127, 128, 129, 255, 256, 257]) if rng.random() < 0.9 else rng.choice([16383, 16384, 16385])
        cw = spec.channel(lfi, 'WIDE', {'dtype': '|u1', 'shape': [rows, wide], 'kind': 'rand', 'seed': rng.randrange(1 << 30)})
        spec.frame(lfi, 'FRW', [cw])
    user = None
    for op in spec.ops:
        if op.get('op') == 'add' and op['kind'] == 'channel':
            rc = op['kwargs']['data']['$arr']
            w = rc['shape'][1] if len(rc['shape']) > 1 else 1
            r = rng.random()
            if r < 0.12:
                op['kwargs']['dimension'] = [w]
                user = 'dim_ok'
            elif r < 0.2:
                op['kwargs']['element_limit'] = [w + rng.choice([0, 1, 5])]
                user = 'el_ok'
            elif r < 0.26:
                op['kwargs']['dimension'] = [w + 1]
                user = 'dim_bad'
            elif r < 0.3:
                op['kwargs']['element_limit'] = [max(w - 1, 1)] if w > 1 else [1, 1]
                user = 'el_other'
            if rng.random() < 0.15:
                op['kwargs']['cast_dtype'] = gen.cast_literal(rng, gen.pick(rng, SAFE_CASTS[rc['dtype'][1:]]))
    shared = False
    twinned = False
    if rng.random() < 0.2:
        # a second frame that shares the first channel
        c2 = spec.channel(lfi, 'EXTRA', gen.array_recipe(rng, rows, width=rng.choice([None, 2])))
        spec.frame(lfi, 'FR2', [chans[0], c2])
        shared = True
    if rng.random() < 0.12:
        # another frame with its own channel of the SAME NAME as a channel of the first frame (copy number 1), other dtype and/or
        # another explicit cast: descriptors and rows of each follow its own channel object
        first = next(op for op in spec.ops if op.get('op') == 'add' and op['kind'] == 'channel')
        dt0 = first['kwargs']['data']['$arr']['dtype'][1:]
        dt2 = rng.choice([d for d in ('f8', 'f4', 'u2', 'i4', 'u1') if d != dt0])
        ckw = {}
        if rng.random() < 0.6:
            ckw['cast_dtype'] = gen.cast_literal(rng, gen.pick(rng, SAFE_CASTS[dt2]))
        twin = spec.channel(lfi, first['name'], gen.array_recipe(rng, rows, dtype=dt2, width=rng.choice([None, 2])), **ckw)
        c3 = spec.channel(lfi, 'OTHER', gen.array_recipe(rng, rows, dtype='f4'))
        spec.frame(lfi, 'FR-TWIN', [twin, c3])
        shared = True
        twinned = True
    if rng.random() < 0.15:
        # a channel that belongs to no frame (accepted with a warning outside the high-compatibility mode)
        spec.channel(lfi, 'ORPHAN', gen.array_recipe(rng, rows, width=rng.choice([None, 3])))
    kind = gen.pick(rng, ['inline', 'inline', 'dict', 'struct', 'h5'])
    ops, data = spec.ops, None
    if kind != 'inline':
        ops, data = gen.externalize(spec.ops, kind, rng)
    w1 = {'path': 'out1.dlis', 'output_chunk_size': 1 << 20}
    if data:
        w1['data'] = data
    writes = [w1]
    changed = None
    if rng.random() < 0.4 and kind in ('inline', 'dict') and not twinned:      # (same-named channels: dataset names are the library's)
        chl = [(op['name'], op['kwargs'].get('dataset_name'), (op['kwargs'].get('data') or {}).get('$arr'))
               for op in ops if op.get('op') == 'add' and op['kind'] == 'channel']
        src = dict((k, rc) for k, rc in (data['arrays'] if data else []))
        arrays = []
        changed = rng.choice(['dtype', 'width', 'same'])
        for nm, dn, rc in chl:
            rc0 = rc or src.get(dn or nm)
            if rc0 is None:
                continue
            rc2 = {'dtype': rc0['dtype'], 'shape': list(rc0['shape']), 'kind': 'rand', 'seed': rng.randrange(1 << 30)}
            if changed == 'dtype':
                rc2['dtype'] = {'f4': '<f8', 'f8': '<f4', 'u1': '<u2', 'i2': '<i4', 'u2': '|u1', 'i4': '<i2', 'i1': '<i4',
                                'u4': '<f8'}[rc2['dtype'][1:]]
            elif changed == 'width':
                rc2['shape'] = [rc2['shape'][0], (rc2['shape'][1] if len(rc2['shape']) > 1 else 1) + 1]
            arrays.append([dn or nm, rc2])
        writes.append({'path': 'out2.dlis', 'output_chunk_size': 1 << 20, 'data': {'kind': 'dict', 'arrays': arrays}})
    return {'scenario': {'env': {'tz': 'UTC'}, 'history': ops},
            'params': {'writes': writes, 'source': kind, 'user': user, 'shared': shared, 'changed': changed}}


def check_case(case, ex):
    hist = case['scenario']['history']
    Pm = case['params']
    fid = C.fid_of(hist)
    stats = C.new_stats(case)
    out = []
    wops = [dict({'op': 'write', 'fid': fid}, **w) for w in Pm['writes']]
    sc, res = C.run(case, ex, wops, stats)
    m = M.build(sc['history'], res['steps'])
    n0 = len(hist)
    stats['nontrivial'] = bool(Pm['changed'] in ('dtype', 'width') or Pm['shared'] or Pm['source'] != 'inline')
    for k, wop in enumerate(wops):
        st = res['steps'][n0 + k]
        if st is None or st.get('out') != 'ok' or st.get('file') is None:
            C.bump(stats['probes'], 'write_%d_raised' % (k + 1))
            continue
        dec = rp66.decode_file(st['file'])
        fp = {'source': Pm['source'], 'write_no': k + 1, 'user': Pm['user'], 'shared': Pm['shared'],
              'changed': Pm['changed'] if k else None}
        v, n = I.descriptors(m, dec, fid, wop, extra_fp=fp)
        # a code that differs from the model is a C08 violation only if it also disagrees with the bytes actually written
        keep = []
        for x in v:
            if x['rule'] == 'C08.code_vs_dtype':
                rv, _ = I.rows(m, dec, fid, wop, prop='C08')
                if not rv:
                    C.bump(stats['probes'], 'code_differs_but_rows_consistent')
                    continue
            keep.append(x)
        out.extend(keep)
        hard = [e for e in dec.errors if e.rule.startswith(('framing.', 'reasm.'))]
        if hard and not keep:
            out.append(C.V('C08.undecodable', dict(fp, why=hard[0].rule), **hard[0].detail))
        C.bump(stats['probes'], 'channels_checked', n)
        stats['state_sigs'].append('%s|w%d|%s|%s|%s' % (Pm['source'], k + 1, Pm['user'], Pm['changed'], Pm['shared']))
    return {'violations': out, 'stats': stats}
