"""C01 - physical layout: label, visible records and segments are well-formed.

Dimension: the bytes on disk are assembled over several flushes and re-opens (output chunk x record length), over
prior content.  Oracle: layer-1 strict framing parse of the final file and of the on-disk file after every flush.
"""
from .. import gen, rp66, invariants as I, model as M
from . import common as C

ID = 'C01'
LEVEL = 'exploration'
LEVEL_TEXT = ('seeded exploration of specifications x record lengths (every even 32..256 reached by index, larger sampled) '
              'x output-chunk schedules x prior content; strict framing parse after every flush and of the final file')
LEVEL_NOTE = 'trusted: sim/rp66.py framing layer; sampling, not exhaustive over body lengths; record lengths 20..30 are outside (C15)'
TIERS = {'quick': {'cases': 3000, 'wall': 40}, 'thorough': {'cases': 400000, 'wall': 780}}
RULE = ('case = seeded valid specification whose no-format payloads put record body lengths at k*(max-8)+d, d in -13..13, '
        'written under 2 output-chunk schedules; non-trivial = at least one record was split into >= 2 segments and a '
        'mid-stream flush happened; distinct = digest of (specification, schedules)')


def gen_case(rng, tier, avoid):
    idx_mrl = rng.random()
    mrl = 32 + 2 * rng.randrange(113) if idx_mrl < 0.8 else gen.record_length(rng, small=0.0)
    spec = gen.Spec(rng)
    kw = {}
    ident = None
    if rng.random() < 0.7:
        ident = ''.join(rng.choice('ABCDEFGHIJ KLMNOPQRSTUVWXYZ-_0123456789abc') for _ in range(rng.choice([0, 1, 17, 59, 60, rng.randint(0, 60)])))
    seq = rng.choice([None, 1, 9, 10, 999, 9999, rng.randint(1, 9999)])
    if rng.random() < 0.15:
        spec.emit({'op': 'new_file', 'fid': 'f0', 'sul': {'set_identifier': ident or 'X', 'sequence_number': seq or 1,
                                                        'max_record_length': mrl}})
        spec.mrl = mrl
    else:
        spec.new_file(mrl=mrl, set_identifier=ident, seq=seq)
    cap = mrl - 8
    lfi = spec.logical_file()
    spec.origin(lfi)
    used = set()
    for _ in range(rng.choice([1, 1, 2])):
        gen.frame_block(spec, lfi, rng, used=used, max_width=rng.choice([4, 12, 40]))
    # payload lengths aimed at body length L = k*cap + d (body = OBNAME + payload)
    nm = 'NF' + str(rng.randint(0, 9))
    ob = 3 + len(nm)
    pls = []
    for _ in range(rng.choice([1, 2, 3, 4])):
        k = rng.choice([0, 1, 1, 1, 2, 2, 3, 4])
        L = k * cap + rng.randint(-13, 13)
        n = max(L - ob, 12 - ob)
        if rng.random() < 0.12:
            n = rng.randint(0, 8)        # a whole record shorter than 12 bytes: padded with 2..11 flagged pad bytes
        pls.append({'$bytes': rng.randbytes(n).hex()})
    spec.no_format(lfi, nm, pls)
    ocs = [gen.pick(rng, C.sym_ocs_choices(rng)[:9]) for _ in range(2)]
    prior = [None, {'n': rng.randint(1, 3000), 'seed': rng.randrange(1 << 16)} if rng.random() < 0.3 else None]
    ops = spec.ops
    relabel = None
    if rng.random() < 0.2:
        # the same DLISFile written again after its label was changed (next unit of a storage set, other record length)
        relabel = [{'op': 'set_sul', 'fid': 'f0', 'prop': 'sequence_number', 'v': rng.choice([2, 17, 9999])}]
        if rng.random() < 0.6:
            relabel.append({'op': 'set_sul', 'fid': 'f0', 'prop': 'set_identifier', 'v': 'NEXT-UNIT-%d' % rng.randint(0, 99)})
        if rng.random() < 0.6:
            relabel.append({'op': 'set_sul', 'fid': 'f0', 'prop': 'max_record_length', 'v': 2 * rng.randint(16, 600)})
    if rng.random() < 0.2:
        ops = gen.noise_file(rng) + ops          # process history: another file (other record length) written first
    # one transient I/O error (a single failing open / partial write / close at a seeded event of the write): should the writer
    # absorb it and return normally, what it produced is still a file produced by a successful write
    transient = [rng.random(), rng.random(), rng.choice(['write_fail', 'write_fail', 'close_fail', 'open_fail', 'short_write'])] \
        if rng.random() < 0.35 else None
    return {'scenario': {'env': {'tz': 'UTC'}, 'history': ops},
            'params': {'ocs': ocs, 'prior': prior, 'relabel': relabel, 'transient': transient}}


def check_case(case, ex):
    hist = case['scenario']['history']
    fid, mrl = C.fid_of(hist), C.mrl_of(hist)
    stats = C.new_stats(case)
    out = []
    size = None
    for k, sym in enumerate(case['params']['ocs']):
        if sym[0] == 'size' and size is None:
            sym = ['mrl', 0]
        ocs = C.resolve_ocs(sym, mrl, size or 0)
        kw = {'output_chunk_size': ocs}
        if case['params']['prior'][k]:
            kw['prior'] = case['params']['prior'][k]
        sc, res = C.run(case, ex, [C.wop(fid, **kw)], stats)
        st = C.last_write(res)
        if st is None or st['out'] != 'ok' or st.get('file') is None:
            C.bump(stats['probes'], 'valid_spec_rejected' if C.rejected_for_size(st) else 'write_failed')
            continue
        F = st['file']
        size = len(F)
        m = M.build(sc['history'], res['steps'])
        v, fr = I.layout(F, m.files[fid])
        fpx = {'ocs': C.ocs_class(sym), 'mrl': 'small' if mrl <= 256 else 'big'}
        for x in v:
            x['fp'].update(fpx)
        out.extend(v)
        nseg_multi = sum(1 for s in fr.segs if s.has_succ)
        nfl = C.n_flushes(st.get('io'))
        if nseg_multi and nfl >= 3:
            stats['nontrivial'] = True
        for s in fr.segs:
            if s.pad:
                C.bump(stats['probes'], 'padded_segment')
                break
        caps = mrl - 8
        for r in rp66.reassemble(fr)[0]:
            d = len(r.body) % caps
            if len(r.body) > caps and (d == 0):
                C.bump(stats['probes'], 'record_exact_fill')
            if len(r.body) > caps and 0 < d < 12:
                C.bump(stats['probes'], 'remainder_1_to_11')
        if nfl >= 3:
            C.bump(stats['probes'], 'flush_mid_record_stream')
        # the on-disk state after every flush is SUL + whole visible records
        bounds = fr.boundaries()
        for ev in st.get('io') or []:
            if ev['k'] in ('write', 'close') and ev.get('prefix') and ev['size'] not in bounds:
                out.append(C.V('C01.flush_state_not_whole_vrs', dict(fpx, event=ev['k']), size=ev['size'], event=ev['i']))
                break
            if ev.get('prefix') is False:
                out.append(C.V('C01.flush_state_not_whole_vrs', dict(fpx, event=ev['k'], why='not_prefix'), size=ev['size']))
                break
        stats['state_sigs'].append('mrl%d|%s|fl%d|seg%d' % (mrl if mrl <= 256 else 999, C.ocs_class(sym), min(nfl, 9),
                                                            min(nseg_multi, 9)))
        tr = case['params'].get('transient')
        if tr and k == 0:
            want = {'write_fail': 'write', 'close_fail': 'close', 'open_fail': 'open', 'short_write': 'write'}[tr[2]]
            evs = [e for e in (st.get('io') or []) if e['k'] == want and (want != 'write' or e['n'] > 1)]
            if evs:
                e = evs[int(tr[0] * len(evs)) % len(evs)]
                flt = {'kind': tr[2], 'at_event': e['i'], 'errno': 28, 'lose': 0}
                if want == 'write':
                    flt['partial'] = 1 + int(tr[1] * (e['n'] - 1)) % (e['n'] - 1)
                sc2, res2 = C.run(case, ex, [C.wop(fid, faults=[flt], **kw)], stats)
                st2 = C.last_write(res2)
                if st2 is not None and tr[2] in (st2.get('faults_fired') or []):
                    C.bump(stats['faults'], tr[2])
                    if st2['out'] == 'ok' and st2.get('file') is not None:
                        C.bump(stats['probes'], 'transient_error_absorbed')
                        v2, _ = I.layout(st2['file'], m.files[fid])
                        for x in v2:
                            x['fp'].update(dict(fpx, after_transient=tr[2]))
                        out.extend(v2)
                    else:
                        C.bump(stats['probes'], 'transient_error_raised')
    rl = case['params'].get('relabel')
    if rl:
        # write, change the label, write again: the second file carries the label as configured now
        new_mrl = next((x['v'] for x in rl if x['prop'] == 'max_record_length'), mrl)
        w1 = C.wop(fid, output_chunk_size=max(mrl, 64) + 20, path='unit1.dlis')
        w2 = C.wop(fid, output_chunk_size=max(new_mrl, 64) + 20, path='unit2.dlis')
        sc, res = C.run(case, ex, [w1] + rl + [w2], stats)
        st = C.last_write(res)
        if st is not None and st['out'] == 'ok' and st.get('file') is not None:
            m = M.build(sc['history'], res['steps'])
            v, fr = I.layout(st['file'], m.files[fid])
            for x in v:
                x['fp'].update({'after_relabel': True})
            out.extend(v)
            C.bump(stats['probes'], 'rewritten_after_label_change')
        elif st is not None:
            C.bump(stats['probes'], 'relabel_write_raised')
    return {'violations': out, 'stats': stats}
