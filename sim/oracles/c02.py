"""C02 - segmentation is lossless, ordered and correctly bracketed.

Dimension: the record stream passes through the output buffer's refill path (flush schedule x record length).
Primary oracle (hook-free, metamorphic): the reassembled (is_eflr, type, body) sequence at the run's small record
length equals the sequence at a record length where nothing is split.  Secondary (soft seam): lr-tap == reassembly.
"""
from .. import gen, rp66
from . import common as C
from . import c01

ID = 'C02'
LEVEL = 'exploration'
LEVEL_TEXT = ('seeded exploration of record-length x output-chunk schedules over specifications whose record bodies sit around '
              'every branch of the splitting arithmetic; reassembly invariance against an unsplit reference and a record tap')
LEVEL_NOTE = ('trusted: sim/rp66.py framing+reassembly; the statement\'s "exhaustively for every (capacity, length) pair" is bounded '
              'enumeration (model checking) and is not claimed: evidence lists which (remainder class) branches were reached')
TIERS = {'quick': {'cases': 3000, 'wall': 40}, 'thorough': {'cases': 400000, 'wall': 780}}
RULE = ('case = seeded valid specification written at a small record length under a seeded output-chunk schedule and at 16384; '
        'non-trivial = some record split into >= 2 segments while >= 2 flushes happened; distinct = digest of (spec, params)')


def gen_case(rng, tier, avoid):
    case = c01.gen_case(rng, tier, avoid)
    case['scenario']['env']['lr_tap'] = True
    return case


def check_case(case, ex):
    hist = case['scenario']['history']
    fid, mrl = C.fid_of(hist), C.mrl_of(hist)
    stats = C.new_stats(case)
    out = []
    sym = case['params']['ocs'][0]
    if sym[0] == 'size':
        sym = ['mrl', 2 * (abs(sym[1]) % 50)]
    ocs = C.resolve_ocs(sym, mrl, 0)
    sc, res = C.run(case, ex, [C.wop(fid, output_chunk_size=ocs)], stats)
    st = C.last_write(res)
    if st is None or st['out'] != 'ok' or st.get('file') is None:
        C.bump(stats['probes'], 'valid_spec_rejected' if C.rejected_for_size(st) else 'write_failed')
        return {'violations': out, 'stats': stats}
    fr = rp66.parse_framing(st['file'])
    recs, errs = rp66.reassemble(fr)
    fpx = {'ocs': C.ocs_class(sym)}
    for e in errs:
        out.append(C.V('C02.' + ('bracketing' if 'bracketing' in e.rule else 'type_or_flag_varies'), dict(fpx), **e.detail))
    # unsplit reference: same ops, record length 16384
    big = {'scenario': {'env': case['scenario']['env'], 'history': _with_mrl(hist, 16384)}}
    sc2, res2 = C.run(big, ex, [C.wop(fid, output_chunk_size=1 << 20)], stats)
    st2 = C.last_write(res2)
    if st2 and st2['out'] == 'ok' and st2.get('file') is not None:
        recs2, _ = rp66.reassemble(rp66.parse_framing(st2['file']))
        _compare(out, [r.key() for r in recs], [r.key() for r in recs2], fpx, 'vs_unsplit', mrl)
    else:
        C.bump(stats['skipped'], 'unsplit_reference_failed')
    tap = st.get('lr_tap')
    if tap is not None and res['seams'].get('lr_tap'):
        _compare(out, [r.key() for r in recs], [(a, b, c) for a, b, c in tap], fpx, 'vs_tap', mrl)
    else:
        C.bump(stats['skipped'], 'lr_tap_dead')
    # the record type the segments carry is the one the specification implies: each set type has its record type (RP66 V1
    # appendix A), a record opening with a FRAME's name is frame data (0), one opening with a NO-FORMAT object's name is 1
    dec = rp66.decode_file(st['file'])
    for e in dec.errors:
        if e.rule == 'eflr.record_type_vs_set':
            out.append(C.V('C02.record_type_wrong', dict(fpx, kind='eflr', set=e.detail.get('set')), **e.detail))
        elif e.rule in ('iflr.frame_ref_unresolved', 'iflr.noformat_ref_unresolved'):
            ob = e.detail.get('frame') or e.detail.get('obj')
            other = 'NO-FORMAT' if e.rule == 'iflr.frame_ref_unresolved' else 'FRAME'
            if any(len(lf.find_object(other, ob)) == 1 for lf in dec.lfs):
                out.append(C.V('C02.record_type_wrong', dict(fpx, kind='iflr', opens_with=other), obj=list(ob), rec=e.detail.get('rec')))
                break
    # one transient I/O event (a failing or SHORT write at a seeded write event): should write() still return normally, what is in
    # the file is what the segmenter was given
    tr = case['params'].get('transient')
    if tr and tr[2] in ('write_fail', 'short_write'):
        evs = [e for e in (st.get('io') or []) if e['k'] == 'write' and e['n'] > 1]
        if evs:
            e = evs[int(tr[0] * len(evs)) % len(evs)]
            flt = {'kind': tr[2], 'at_event': e['i'], 'errno': 28, 'partial': 1 + int(tr[1] * (e['n'] - 1)) % (e['n'] - 1)}
            sc3, res3 = C.run(case, ex, [C.wop(fid, output_chunk_size=ocs, faults=[flt])], stats)
            st3 = C.last_write(res3)
            if st3 is not None and tr[2] in (st3.get('faults_fired') or []):
                C.bump(stats['faults'], tr[2])
                if st3['out'] == 'ok' and st3.get('file') is not None and st3.get('lr_tap') is not None:
                    fr3 = rp66.parse_framing(st3['file'])
                    recs3, errs3 = rp66.reassemble(fr3)
                    for e3 in errs3[:1]:
                        out.append(C.V('C02.' + ('bracketing' if 'bracketing' in e3.rule else 'type_or_flag_varies'),
                                       dict(fpx, after_transient=tr[2]), **e3.detail))
                    if not errs3:
                        _compare(out, [r.key() for r in recs3], [(a, b, c) for a, b, c in st3['lr_tap']],
                                 dict(fpx, after_transient=tr[2]), 'vs_tap', mrl)
    cap = mrl - 8
    multi = [r for r in recs if r.nsegs > 1]
    nfl = C.n_flushes(st.get('io'))
    stats['nontrivial'] = bool(multi) and nfl >= 3
    for r in recs:
        L = len(r.body)
        d = L % cap
        if L > cap and d == 0:
            C.bump(stats['probes'], 'record_exact_fill')
        if L > cap and 0 < d < 12:
            C.bump(stats['probes'], 'remainder_1_to_11')
        if L % 2:
            C.bump(stats['probes'], 'odd_body')
        if r.nsegs >= 3:
            C.bump(stats['probes'], 'three_plus_segments')
    # which record straddles a flush: the VR written first after a flush
    if nfl >= 3:
        C.bump(stats['probes'], 'flush_mid_record_stream')
    stats['state_sigs'].append('cap%d|%s|multi%d|fl%d' % (cap if cap < 250 else 999, C.ocs_class(sym), min(len(multi), 9), min(nfl, 9)))
    return {'violations': out, 'stats': stats}


def _with_mrl(hist, mrl):
    import copy
    h = copy.deepcopy(hist)
    for op in h:
        if op.get('op') == 'new_file':
            if op.get('sul'):
                op['sul']['max_record_length'] = mrl
            else:
                op.setdefault('kwargs', {})['max_record_length'] = mrl
    return h


def _kind(k):
    return ('EFLR%d' % k[1]) if k[0] else {0: 'FDATA', 1: 'NOFMT'}.get(k[1], 'IFLR%d' % k[1])


def _compare(out, got, want, fpx, what, mrl):
    cap = mrl - 8
    if len(got) != len(want):
        out.append(C.V('C02.count_differs', dict(fpx, what=what), got=len(got), want=len(want)))
        return
    for i, (g, w) in enumerate(zip(got, want)):
        if g != w:
            L = len(w[2])
            cls = 'exact' if L % cap == 0 else ('rem_1_11' if L > cap and L % cap < 12 else ('odd' if L % 2 else 'even'))
            if g[:2] != w[:2]:
                rule = 'order_differs' if sorted(got, key=repr) == sorted(want, key=repr) else 'type_or_flag_varies'
            else:
                rule = 'order_differs' if sorted(got, key=repr) == sorted(want, key=repr) else 'body_differs'
            d = next((j for j in range(min(len(g[2]), L)) if g[2][j] != w[2][j]), min(len(g[2]), L))
            out.append(C.V('C02.' + rule, dict(fpx, what=what, kind=_kind(w), body=cls), record=i, first_diff=d,
                           got_len=len(g[2]), want_len=L))
            return
