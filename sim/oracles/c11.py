"""C11 - all data sources are equivalent and the row window selects exactly its rows.

Dimension: four source kinds behind one chunked-read interface (real HDF5 file I/O, zero-copy structured fast path),
x window x input chunk schedule.  Oracle: byte identity across sources and against pre-sliced arrays, each in a fresh fork.
"""
import copy
import random
from .. import gen
from . import common as C

ID = 'C11'
LEVEL = 'exploration'
LEVEL_TEXT = ('seeded exploration of frames x {inline, dict, structured array, HDF5 file (mapping, extra datasets, permuted order)} x '
              'windows x input chunk sizes; byte identity of whole files, every execution in its own fork')
LEVEL_NOTE = 'trusted: both sides of every comparison run the same code in fresh forks; h5py/HDF5 is real; <= 40 rows'
TIERS = {'quick': {'cases': 1000, 'wall': 40}, 'thorough': {'cases': 150000, 'wall': 780}}
RULE = ('case = seeded frames written from every source kind with and without a seeded window and input chunk size, compared '
        'bytewise with the inline / pre-sliced reference; non-trivial = a window with from_idx>0 or to_idx<rows was exercised on a '
        'non-inline source with several input chunks; distinct = case digest')


def gen_case(rng, tier, avoid):
    mrl = gen.record_length(rng, small=0.3)
    spec = gen.Spec(rng)
    spec.new_file(mrl=mrl)
    rows = rng.choice([2, 3, 5, 8, 12, 17, 24, 40])
    used = set()
    n_lf = rng.choice([1, 1, 1, 2, 2, 3])       # the window applies to every frame of every logical file of the storage unit
    for li in range(n_lf):
        start = len(spec.ops)
        lfi = spec.logical_file(**({'fh_id': 'LF-%d' % li} if n_lf > 1 else {}))
        spec.origin(lfi)
        for _ in range(rng.choice([1, 1, 2]) if n_lf == 1 else 1):
            gen.frame_block(spec, lfi, rng, rows=rows, used=used, max_width=8 if n_lf == 1 else 4, index=rng.random() < 0.4)
        if n_lf > 1:
            for op in spec.ops[start:]:
                if op.get('op') == 'add':
                    op['kwargs'].setdefault('set_name', 'S%d' % li)
    lfi = spec.lfs[0]
    from .c03 import SAFE_CASTS
    for op in spec.ops:
        if op.get('op') == 'add' and op['kind'] == 'channel' and rng.random() < 0.2:
            op['kwargs']['cast_dtype'] = gen.cast_literal(rng, gen.pick(rng, SAFE_CASTS[op['kwargs']['data']['$arr']['dtype'][1:]]))
    if rng.random() < 0.25 and 'ghost_object' not in avoid:
        # a rejected add_channel(data=...) somewhere in the build: the caller carries on; its array belongs to no channel and
        # must not make the data sources differ
        from . import c20
        spec.ops.insert(rng.randint(3, len(spec.ops)), c20.bad_channel_with_data(rng, lfi, 0))
    a = rng.randint(0, rows - 1)
    b = rng.randint(a + 1, rows)
    if 'fastpath_window' in avoid:
        pass
    win = {'from_idx': a, 'to_idx': b if rng.random() < 0.7 or b < rows else None}
    if rng.random() < 0.25:
        win = {'from_idx': 0, 'to_idx': b}
    ics = gen.pick(rng, gen.ics_choices(rng, max(b - a, 1)))
    pre = None
    if rng.random() < 0.3 and rows > 2:
        # windows are typically exported one after another from one specification: an earlier export of another window
        a0 = rng.randint(0, rows - 1)
        pre = {'from_idx': a0, 'to_idx': rng.choice([a0 + 1, rng.randint(a0 + 1, rows)])}
    return {'scenario': {'env': {'tz': 'UTC'}, 'history': spec.ops},
            'params': {'window': win, 'ics': ics, 'pre_window': pre, 'ext_seed': rng.randrange(1 << 30), 'rows': rows,
                       'kinds': ['dict', 'struct', 'h5'], 'avoid_fastpath_window': 'fastpath_window' in avoid, 'n_lf': n_lf}}


def _presliced(ops, a, b):
    ops = copy.deepcopy(ops)
    for op in ops:
        d = (op.get('kwargs') or {}).get('data')
        if isinstance(d, dict) and '$arr' in d:
            rc = d['$arr']
            have = min(rc['shape'][0] - (rc.get('skip') or 0), rc.get('rows', 10 ** 9))
            rc['skip'] = (rc.get('skip') or 0) + a
            rc['rows'] = max((min(b, have) if b is not None else have) - a, 0)
    return ops


def check_case(case, ex):
    hist = case['scenario']['history']
    P = case['params']
    fid = C.fid_of(hist)
    stats = C.new_stats(case)
    out = []
    rows = P['rows']

    def write(ops, pre=None, **kw):
        first = []
        if pre:
            pk = {k: v for k, v in kw.items() if k in ('data', 'input_chunk_size')}
            first = [C.wop(fid, output_chunk_size=1 << 20, path='earlier.dlis', **dict(pk, **pre))]
        sc = {'env': case['scenario']['env'], 'history': list(ops) + first + [C.wop(fid, output_chunk_size=1 << 20, **kw)]}
        res = ex(sc)
        stats['execs'] += 1
        stats['seams'].update(res['seams'])
        st = C.last_write(res)
        if st is None:
            return ('skip', None, None)
        return (st['out'], st.get('file') if st['out'] == 'ok' else None, st)

    o_ref, F_ref, st_ref = write(hist)
    if any(op.get('bad') for op in hist):
        C.bump(stats['probes'], 'rejected_add_channel_with_data_in_history')
    if o_ref != 'ok':
        C.bump(stats['probes'], 'valid_spec_rejected' if C.rejected_for_size(st_ref) else 'reference_write_failed')
        return {'violations': out, 'stats': stats}
    win = P['window']
    a, b = win.get('from_idx', 0), win.get('to_idx')
    wkw = {k: v for k, v in win.items() if v is not None}
    o_pre, F_pre, _ = write(_presliced(hist, a, b))
    ics = P['ics']
    ikw = {'input_chunk_size': ics} if ics is not None else {}
    variants = [('inline', hist, None)]
    for kind in P['kinds']:
        ops, data = gen.externalize(hist, kind, random.Random(P['ext_seed']))
        variants.append((data['kind'] if kind != data['kind'] else kind, ops, data))
    for kind, ops, data in variants:
        dkw = {'data': data} if data else {}
        fast = kind == 'struct'
        if kind != 'inline':
            o1, F1, st1 = write(ops, **dict(dkw, **ikw))
            fp = {'kind': kind, 'window': False, 'ics': C.ics_class(ics, rows)}
            C.bump(stats['probes'], 'source_' + kind)
            if o1 != 'ok':
                out.append(C.V('C11.outcome_differs', fp, exc=st1.get('exc'), msg=st1.get('msg')))
            elif F1 != F_ref:
                out.append(C.V('C11.bytes_differ_across_sources', fp, **_diff(F1, F_ref)))
        if o_pre != 'ok':
            C.bump(stats['skipped'], 'presliced_reference_failed')
            continue
        if P.get('avoid_fastpath_window') and fast and a > 0:
            C.bump(stats['skipped'], 'fastpath_window_avoided')
            continue
        o2, F2, st2 = write(ops, pre=P.get('pre_window'), **dict(dkw, **dict(ikw, **wkw)))
        fp = {'kind': kind, 'window': True, 'n_lf': min(P.get('n_lf', 1), 2), 'after_earlier_window': bool(P.get('pre_window')), 'from_gt0': a > 0, 'to_given': b is not None, 'ics': C.ics_class(ics, max((b or rows) - a, 1))}
        if o2 != 'ok':
            out.append(C.V('C11.outcome_differs', fp, exc=st2.get('exc'), msg=st2.get('msg'), window=[a, b]))
        elif F2 != F_pre:
            out.append(C.V('C11.window_differs_from_preslice', fp, window=[a, b], **_diff(F2, F_pre)))
        if kind != 'inline' and (a > 0 or (b is not None and b < rows)) and ics is not None and ics < (b or rows) - a:
            stats['nontrivial'] = True
        stats['state_sigs'].append('%s|a%d|b%s|%s|lf%d' % (kind, min(a, 3), b is None or b == rows, C.ics_class(ics, rows), P.get('n_lf', 1)))
    return {'violations': out, 'stats': stats}


def _diff(a, b):
    a, b = a or b'', b or b''
    d = next((i for i in range(min(len(a), len(b))) if a[i] != b[i]), min(len(a), len(b)))
    return {'first_diff': d, 'len_got': len(a), 'len_want': len(b), 'got_at': a[d:d + 16], 'want_at': b[d:d + 16]}
