"""C06 - primitive values are encoded exactly as their representation code prescribes.

Dimension: write_struct is the public dispatch *behind a process-wide cache* and DTIME goes through the process time zone:
the bytes for a value depend on what was encoded before (cache history: cold, warm with equal-but-distinct keys, flooded) and
on TZ.  Oracle: a stateless reference decoder recovers the value and consumes exactly the emitted length; values the code
cannot represent raise - in every cache state.
"""
import math
import struct
import datetime as _dt
from .. import gen, rp66, expect
from . import common as C

ID = 'C06'
LEVEL = 'exploration'
LEVEL_TEXT = ('seeded exploration of encode histories through the public write_struct dispatch (15 codes, boundary values of every '
              'range / length prefix, DTIME x time zones x microseconds) in cold, warm-colliding (equal-but-distinct keys encoded '
              'first: 0.0/-0.0, 1/1.0/True, equal instants in other zones, str/enum) and flooded cache states; stateless decode')
LEVEL_NOTE = ('trusted: sim/rp66.py value decoders (golden vectors in selftest oracle); OBNAME/OBJREF need live objects: a tenth of the cases '
              'probes object identities before and after renames, re-pointed origins and writes; also covered by C05/C07; flood runs (~1 s each) only in the thorough tier')
TIERS = {'quick': {'cases': 8000, 'wall': 40}, 'thorough': {'cases': 400000, 'wall': 780}}
RULE = ('case = seeded sequence of 4-40 write_struct calls in one process (a prefix of colliding keys, then the probes); '
        'non-trivial = the probe value was preceded by an equal-but-distinct key or DTIME ran under a non-UTC zone; distinct = digest')
FIXED = {'USHORT': (15, 0, 255), 'UNORM': (16, 0, 65535), 'ULONG': (17, 0, 2 ** 32 - 1), 'SSHORT': (12, -128, 127),
         'SNORM': (13, -32768, 32767), 'SLONG': (14, -2 ** 31, 2 ** 31 - 1)}


def probe(rng):
    """(code name, literal, expectation) expectation: ('int', v) / ('float', v) / ('str', s) / ('dtime', lit) / ('raise',)"""
    k = rng.choice(['UVARI', 'UVARI', 'FIXED', 'FIXED', 'FLOAT', 'IDENT', 'ASCII', 'DTIME', 'DTIME', 'STATUS'])
    if k == 'UVARI':
        v = rng.choice([0, 1, 127, 128, 129, 16383, 16384, 16385, 2 ** 30 - 1, rng.randint(0, 2 ** 30 - 1), 2 ** 30, 2 ** 31, -1])
        return 'UVARI', v, ('int', v) if 0 <= v < 2 ** 30 else ('raise',)
    if k == 'FIXED':
        name = rng.choice(sorted(FIXED))
        code, lo, hi = FIXED[name]
        v = rng.choice([lo, hi, lo - 1, hi + 1, 0, 1, rng.randint(lo, hi)])
        return name, v, ('int', v) if lo <= v <= hi else ('raise',)
    if k == 'FLOAT':
        name = rng.choice(['FDOUBL', 'FSINGL'])
        v = rng.choice([0.0, -0.0, 1.0, -1.5, float('inf'), float('-inf'), float('nan'), 1e-300, 3.5, 1, True, rng.random() * 1e6])
        if name == 'FSINGL':
            if isinstance(v, float) and v == v and not math.isinf(v):
                v = struct.unpack('>f', struct.pack('>f', v))[0] if abs(v) < 3e38 else 1.0
        if isinstance(v, float) and rng.random() < 0.2:
            # the same value as a numpy scalar (float64 is a subclass of float, float32 is not): as it comes out of numpy code
            return name, {'$npscalar': ['float64' if name == 'FDOUBL' or rng.random() < 0.5 else 'float32', v]}, ('float', float(v))
        return name, v, ('float', float(v))
    if k in ('IDENT', 'ASCII') and rng.random() < 0.12:
        # non-str values are converted with str(): 1, 1.0 and True are equal (and hash equal) but have different texts
        v = rng.choice([1, 1.0, True, 0, 0.0, False, 7, 7.0])
        return k, v, ('str', str(v))
    if k == 'IDENT':
        n = rng.choice([0, 1, 127, 128, 200, 255, 256, 300])
        s = ''.join(rng.choice('ABCDEFGHIJKLMNOPQRSTUVWXYZ0123456789-_') for _ in range(n))
        if rng.random() < 0.1:
            s = s[:5] + 'é'
            return 'IDENT', s, ('raise',)
        return 'IDENT', s, ('str', s) if n <= 255 else ('raise',)
    if k == 'ASCII':
        n = rng.choice([0, 1, 127, 128, 16383, 16384, 16500, rng.randint(0, 300)])
        s = ''.join(chr(32 + rng.randrange(95)) for _ in range(n))
        if rng.random() < 0.1:
            s = s[:5] + 'ü'
            return 'ASCII', s, ('raise',)
        return 'ASCII', s, ('str', s)
    if k == 'DTIME':
        from .. import genmeta
        lit = genmeta.dtime(rng, allow_str=False)
        if rng.random() < 0.08:
            # a wall-clock time that occurs twice (the hour repeated when DST ends), first or second occurrence
            zone, iso = rng.choice([('Europe/Oslo', '2021-10-31T02:30:00.000000'), ('America/New_York', '2021-11-07T01:15:30.250000'),
                                    ('Europe/Oslo', '2003-10-26T02:00:00.000000')])
            lit = {'$dt': iso, 'tz': zone, 'fold': rng.choice([0, 1])}
            return 'DTIME', lit, ('dtime', lit)
        if rng.random() < 0.15:
            y = rng.choice([1899, 2156, 1800])
            lit = {'$dt': '%04d' % y + lit['$dt'][4:], 'tz': 0}
            return 'DTIME', lit, ('raise',)
        return 'DTIME', lit, ('dtime', lit)
    v = rng.choice([0, 1, True, False, 2, -1, 255])
    return 'STATUS', v, ('int', int(v)) if v in (0, 1) else ('raise',)


def collider(rng, code, lit):
    """an equal-but-distinct key for the cache"""
    if isinstance(lit, dict) and '$npscalar' in lit:
        dt, x = lit['$npscalar']
        if isinstance(x, float) and x == 0:
            return rng.choice([{'$npscalar': [dt, -x]}, -x])          # the other zero, as a numpy scalar or a Python float
        return x                                                      # the equal Python number
    if isinstance(lit, float) and lit == 0:
        return -lit
    if isinstance(lit, bool):
        return int(lit)
    if isinstance(lit, int) and lit in (0, 1):
        return rng.choice([float(lit), bool(lit)])
    if isinstance(lit, int):
        return float(lit)
    if isinstance(lit, float) and lit == lit and not math.isinf(lit) and abs(lit) < 2 ** 31 and lit == int(lit):
        return int(lit)
    if isinstance(lit, dict) and '$dt' in lit and 'fold' in lit:
        return dict(lit, fold=1 - lit['fold'])       # the other occurrence: compares and hashes equal, is another instant
    if isinstance(lit, dict) and '$dt' in lit and lit.get('tz') is not None and not isinstance(lit['tz'], str):
        d = _dt.datetime.fromisoformat(lit['$dt']) + _dt.timedelta(minutes=60 - lit['tz'])
        if 1901 < d.year < 2150:
            return {'$dt': d.isoformat(), 'tz': 60}
    return None


def identity_case(rng):
    """OBNAME / OBJREF need live objects: identities (origin reference around the UVARI boundaries, copy numbers from repeated
    names, names up to the IDENT limit) probed before and after renames, re-pointed origins and writes of the file."""
    spec = gen.Spec(rng)
    spec.new_file(mrl=8192)
    lfi = spec.logical_file()
    spec.origin(lfi)
    refs = [0, 1, 127, 128, 16383, 16384, 2 ** 30 - 1, rng.randint(0, 2 ** 30 - 1)]
    names = ['N', 'N', 'A' * 255, 'LONG-' + 'X' * rng.randint(100, 250), 'Z-%d' % rng.randint(0, 9)]
    hs = []
    ops = list(spec.ops)
    ops.append({'op': 'add', 'lf': lfi['lf'], 'kind': 'channel', 'h': 'idc', 'name': 'C0', 'c': 0,
                'kwargs': {'data': {'$arr': {'dtype': '<f8', 'shape': [3], 'kind': 'ramp', 'start': 1, 'step': 1}}}})
    ops.append({'op': 'add', 'lf': lfi['lf'], 'kind': 'frame', 'h': 'idf', 'name': 'F0', 'c': 0,
                'kwargs': {'channels': [{'$ref': 'idc'}]}})
    hs += [('idc', 'channel'), ('idf', 'frame')]
    for k in range(rng.choice([2, 3, 5])):
        kind = rng.choice(['zone', 'axis', 'tool', 'equipment', 'parameter'])
        h = 'id%d' % k
        kw = {'origin_reference': gen.pick(rng, refs)} if rng.random() < 0.7 else {}
        ops.append({'op': 'add', 'lf': lfi['lf'], 'kind': kind, 'h': h, 'name': gen.pick(rng, names), 'kwargs': kw, 'c': 0})
        hs.append((h, kind))
    hist = list(ops)

    def probes():
        for h, _ in hs:
            if rng.random() < 0.7:
                hist.append({'op': 'item_id', 'h': h})
    probes()
    for _ in range(rng.choice([1, 2, 3])):
        r = rng.random()
        h, kind = gen.pick(rng, hs)
        if r < 0.4:
            hist.append({'op': 'set_prop', 'h': h, 'prop': 'name', 'v': gen.pick(rng, names + ['R' * 256, 'RENAMED'])})
        elif r < 0.75:
            hist.append({'op': 'set_prop', 'h': h, 'prop': 'origin_reference', 'v': gen.pick(rng, refs + [2 ** 30, -1])})
        else:
            hist.append(gen.write_op(spec, path='id.dlis'))
        probes()
    return {'scenario': {'env': {'tz': 'UTC'}, 'history': hist}, 'params': {'kind': 'identity'}}


def check_identity(case, ex):
    hist = case['scenario']['history']
    stats = C.new_stats(case)
    out = []
    sc, res = C.run(case, ex, [], stats)
    changed = set()
    written = False
    for op, st in zip(hist, res['steps']):
        if st is None:
            continue
        if op.get('op') == 'set_prop' and st.get('out') == 'ok':
            changed.add(op['h'])
        if op.get('op') == 'write' and st.get('out') == 'ok':
            written = True
        if op.get('op') != 'item_id':
            continue
        fp = {'code': 'OBNAME', 'identity_changed': op['h'] in changed, 'after_write': written}
        if op['h'] in changed:
            stats['nontrivial'] = True
        if st.get('out') != 'ok':
            # an identity the code cannot represent (origin >= 2**30, name longer than 255) may be rejected here
            C.bump(stats['probes'], 'identity_probe_raised')
            continue
        want = st['props']
        for route, code in (('own', 23), ('obname', 23), ('objref', 24)):
            raw = bytes.fromhex(st[route])
            try:
                c = rp66.Cur(raw)
                v, _ = rp66.rd_value(code, c)
                used = c.p
            except Exception as e:
                out.append(C.V('C06.undecodable', dict(fp, route=route), bytes=st[route][:80], err=repr(e)))
                continue
            got = list(v[-3:]) if code == 24 else list(v)
            if used != len(raw):
                out.append(C.V('C06.length_mismatch', dict(fp, route=route), used=used, emitted=len(raw)))
            elif got != list(want):
                out.append(C.V('C06.decode_mismatch', dict(fp, route=route), want=want, got=got))
            C.bump(stats['probes'], 'code_' + ('OBJREF' if code == 24 else 'OBNAME'))
    stats['state_sigs'].append('identity|%d|%s' % (len(changed), written))
    return {'violations': out, 'stats': stats}


def header_case(rng):
    """The fixed-width ASCII fields (FILE-HEADER SEQUENCE-NUMBER: 10 characters, ID: 65; label set identifier: 60) given at
    creation or assigned afterwards, at and beyond their widths: written exactly, or the write (or the assignment) raises."""
    spec = gen.Spec(rng)
    spec.new_file(mrl=8192)
    n = rng.choice([0, 1, 64, 65, 65, 66, 70, 130])
    hid = ''.join(rng.choice('ABCDEFGHIJKLMNOPQRSTUVWXYZ0123456789-_') for _ in range(n))
    seq = rng.choice([1, 9, 10, 9999999999, 9999999999, 10 ** 10, 10 ** 10 + 7, 123456789012])
    route = rng.choice(['creation', 'later', 'later'])
    kw = {}
    if route == 'creation':
        kw = {'fh_id': hid, 'fh_sequence_number': seq}
    lfi = spec.logical_file(**kw)
    spec.origin(lfi)
    c = spec.channel(lfi, 'C0', {'dtype': '<f8', 'shape': [2], 'kind': 'ramp', 'start': 1, 'step': 1})
    spec.frame(lfi, 'F0', [c])
    hist = list(spec.ops)
    if route == 'later':
        o = next(op for op in hist if op.get('op') == 'add' and op['kind'] == 'origin')
        hist += [{'op': 'set_fh', 'lf': lfi['lf'], 'prop': 'header_id', 'v': hid},
                 {'op': 'set', 'h': o['h'], 'attr': 'file_id', 'part': 'value', 'v': hid},
                 {'op': 'set_fh', 'lf': lfi['lf'], 'prop': 'sequence_number', 'v': seq}]
    sid = None
    if rng.random() < 0.4:
        sid = 'S' * rng.choice([1, 59, 60, 61, 70])
        hist.append({'op': 'set_sul', 'fid': spec.fid, 'prop': 'set_identifier', 'v': sid})
    hist.append(gen.write_op(spec, path='hdr.dlis'))
    return {'scenario': {'env': {'tz': 'UTC'}, 'history': hist},
            'params': {'kind': 'header', 'hid': hid, 'seq': seq, 'sid': sid, 'route': route}}


def check_header(case, ex):
    hist = case['scenario']['history']
    Pm = case['params']
    stats = C.new_stats(case)
    out = []
    sc, res = C.run(case, ex, [], stats)
    st = C.last_write(res)
    fits = len(Pm['hid']) <= 65 and len(str(Pm['seq'])) <= 10 and (Pm['sid'] is None or len(Pm['sid']) <= 60)
    fp = {'code': 'ASCII-fixed', 'route': Pm['route'], 'fits': fits}
    stats['nontrivial'] = True
    accepted = all(s is None or s.get('out') == 'ok' for s in res['steps'][:-1])
    if st is None or st.get('out') != 'ok' or not accepted:
        C.bump(stats['probes'], 'fixed_width_rejected' if not fits else 'fixed_width_write_failed')
        if fits and st is not None and st.get('out') == 'exc' and accepted and not C.rejected_for_size(st):
            out.append(C.V('C06.raised_on_representable', fp, exc=st.get('exc'), msg=st.get('msg')))
        return {'violations': out, 'stats': stats}
    dec = rp66.decode_file(st['file'])
    C.bump(stats['probes'], 'code_ASCII_fixed_width')
    if not fits:
        out.append(C.V('C06.accepted_unrepresentable', fp, id_len=len(Pm['hid']), seq=Pm['seq'], sid_len=len(Pm['sid'] or '')))
        return {'violations': out, 'stats': stats}
    try:
        ho = dec.lfs[0].header.objects[0]
        got_seq = ho.attrs['SEQUENCE-NUMBER'].values
        got_id = ho.attrs['ID'].values
    except Exception as e:
        out.append(C.V('C06.undecodable', fp, err=repr(e), errors=[x.rule for x in dec.errors][:3]))
        return {'violations': out, 'stats': stats}
    if got_seq != [str(Pm['seq']).rjust(10)] or got_id != [Pm['hid'].ljust(65)]:
        out.append(C.V('C06.decode_mismatch', fp, want=[str(Pm['seq']).rjust(10), Pm['hid'].ljust(65)], got=[got_seq, got_id]))
    if Pm['sid'] is not None and dec.framing.sul and dec.framing.sul.get('set_identifier') != Pm['sid'].ljust(60):
        out.append(C.V('C06.decode_mismatch', dict(fp, field='set_identifier'), want=Pm['sid'].ljust(60),
                       got=dec.framing.sul.get('set_identifier')))
    return {'violations': out, 'stats': stats}


def file_dtime_case(rng):
    """DTIME values on their way into a file (attribute -> bytes), not through write_struct called directly: an origin's creation
    time and a zone's limits, naive or aware, under a seeded process zone and a simulated 'now' in either DST season."""
    from .. import genmeta
    tz = gen.pick(rng, gen.TZS)
    spec = gen.Spec(rng)
    spec.new_file(mrl=8192)
    lfi = spec.logical_file()
    vals = [genmeta.dtime(rng, allow_str=rng.random() < 0.3) for _ in range(3)]
    spec.origin(lfi, creation_time=vals[0])
    c = spec.channel(lfi, 'C0', {'dtype': '<f8', 'shape': [2], 'kind': 'ramp', 'start': 1, 'step': 1})
    spec.frame(lfi, 'F0', [c])
    spec.add(lfi, 'zone', 'ZT', domain='TIME', maximum=vals[1], minimum=vals[2])
    hist = [{'op': 'set_clock', 'now': rng.choice(['2021-01-20T10:00:00', '2021-07-20T10:00:00', '2021-03-14T06:59:59'])}] + list(spec.ops)
    hist.append(gen.write_op(spec, path='dt.dlis'))
    return {'scenario': {'env': {'tz': tz}, 'history': hist}, 'params': {'kind': 'file_dtime', 'vals': vals}}


def check_file_dtime(case, ex):
    tz = case['scenario']['env'].get('tz')
    stats = C.new_stats(case)
    out = []
    sc, res = C.run(case, ex, [], stats)
    st = C.last_write(res)
    stats['nontrivial'] = tz not in (None, 'UTC')
    if st is None or st.get('out') != 'ok' or st.get('file') is None:
        C.bump(stats['probes'], 'file_dtime_write_failed')
        return {'violations': out, 'stats': stats}
    dec = rp66.decode_file(st['file'])
    want = case['params']['vals']
    got = []
    try:
        lf = dec.lfs[0]
        o = [s for s in lf.sets if s.type == 'ORIGIN'][0].objects[0]
        z = [s for s in lf.sets if s.type == 'ZONE'][0].objects[0]
        got = [o.attrs['CREATION-TIME'], z.attrs['MAXIMUM'], z.attrs['MINIMUM']]
    except Exception as e:
        out.append(C.V('C06.undecodable', {'code': 'DTIME', 'route': 'file'}, err=repr(e), errors=[x.rule for x in dec.errors][:3]))
        return {'violations': out, 'stats': stats}
    for w, a, label in zip(want, got, ('CREATION-TIME', 'MAXIMUM', 'MINIMUM')):
        C.bump(stats['probes'], 'code_DTIME_in_file')
        naive = isinstance(w, str) or w.get('tz') is None
        fp = {'code': 'DTIME', 'route': 'file', 'tz': 'utc' if tz in (None, 'UTC') else 'other',
              'value_class': 'dtime_naive' if naive else 'dtime_aware'}
        if a is None or a.code != 21 or not a.values or not isinstance(a.values[0], dict):
            out.append(C.V('C06.decode_mismatch', dict(fp, why='not_a_dtime'), label=label, got=a.summary() if a else None))
            continue
        wi, gi = expect.instant_ms(w, tz), expect.decoded_instant_ms(a.values[0], tz)
        if wi is None or abs(wi - gi) > 1.0:
            out.append(C.V('C06.decode_mismatch', fp, label=label, value=w, decoded=a.values[0]))
    return {'violations': out, 'stats': stats}


def gen_case(rng, tier, avoid):
    if rng.random() < 0.1:
        return identity_case(rng)
    if rng.random() < 0.03:
        return file_dtime_case(rng)
    if rng.random() < 0.04:
        return header_case(rng)
    tz = gen.pick(rng, gen.TZS)
    hist = []
    probes = []
    for _ in range(rng.choice([2, 4, 8, 16])):
        code, lit, exp = probe(rng)
        col = collider(rng, code, lit) if rng.random() < 0.6 else None
        if col is not None:
            hist.append({'op': 'encode', 'code': code, 'v': col, 'warm': True})
        hist.append({'op': 'encode', 'code': code, 'v': lit, 'exp': list(exp), 'after_collider': col is not None})
        if rng.random() < 0.3:
            # warm hit of the identical key
            hist.append({'op': 'encode', 'code': code, 'v': lit, 'exp': list(exp), 'after_collider': True})
    # ask again for values encoded earlier, after everything else went through the dispatch (cache hits after intervening encodes)
    firsts = [dict(op) for op in hist if 'exp' in op]
    rng.shuffle(firsts)
    for op in firsts[:rng.choice([1, 2, 4, 8])]:
        op['after_collider'] = True
        op['reprobe'] = True
        hist.append(op)
    if tier == 'thorough' and rng.random() < 0.004:
        hist.insert(rng.randint(0, len(hist)), {'op': 'flood', 'n': 70000})
    return {'scenario': {'env': {'tz': tz}, 'history': hist}, 'params': {}}


def _maybe_equal(a, b):
    try:
        if isinstance(a, dict) or isinstance(b, dict):
            return isinstance(a, dict) and isinstance(b, dict)
        return a == b
    except Exception:
        return False


def decode(code, raw):
    c = rp66.Cur(raw)
    num = {'USHORT': 15, 'UNORM': 16, 'ULONG': 17, 'SSHORT': 12, 'SNORM': 13, 'SLONG': 14, 'FSINGL': 2, 'FDOUBL': 7, 'UVARI': 18,
           'IDENT': 19, 'ASCII': 20, 'DTIME': 21, 'STATUS': 26}[code]
    v, used = rp66.rd_value(num, c)
    return v, c.p


def check_case(case, ex):
    if case.get('params', {}).get('kind') == 'identity':
        return check_identity(case, ex)
    if case.get('params', {}).get('kind') == 'header':
        return check_header(case, ex)
    if case.get('params', {}).get('kind') == 'file_dtime':
        return check_file_dtime(case, ex)
    hist = case['scenario']['history']
    tz = case['scenario']['env'].get('tz')
    stats = C.new_stats(case)
    out = []
    sc, res = C.run(case, ex, [], stats)
    steps = res['steps']
    for idx, op in enumerate(hist):
        if op.get('op') != 'encode' or 'exp' not in op:
            continue
        st = steps[idx]
        if st is None:
            continue
        exp = op['exp']
        # warm = an equal-but-distinct (or the identical) key was encoded earlier in this process
        warm = any(h.get('op') == 'encode' and h.get('code') == op['code'] and _maybe_equal(h.get('v'), op['v']) for h in hist[:idx])
        code = op['code']
        fp = {'code': code, 'cache': 'warm' if warm else 'cold', 'tz': 'utc' if tz in (None, 'UTC') else 'other',
              'value_class': expect.value_class(op['v'])}
        C.bump(stats['probes'], 'code_' + code)
        if warm or (code == 'DTIME' and fp['tz'] == 'other'):
            stats['nontrivial'] = True
        if exp[0] == 'raise':
            if st['out'] == 'ok':
                out.append(C.V('C06.accepted_unrepresentable', fp, value=op['v'], bytes=st.get('bytes')))
            else:
                C.bump(stats['probes'], 'rejected_unrepresentable')
            continue
        if st['out'] != 'ok':
            out.append(C.V('C06.raised_on_representable', fp, value=op['v'], exc=st.get('exc'), msg=st.get('msg')))
            continue
        if st.get('earlier_changed'):
            out.append(C.V('C06.earlier_result_changed', dict(fp, why='aliased_result'), n=st['earlier_changed'], code=op['code']))
        raw = bytes.fromhex(st['bytes'])
        try:
            v, used = decode(code, raw)
        except rp66.DecodeError as e:
            out.append(C.V('C06.decode_mismatch', dict(fp, why=e.err.rule), value=op['v'], bytes=st['bytes'][:80]))
            continue
        if used != len(raw):
            out.append(C.V('C06.length_mismatch', fp, value=op['v'] if not isinstance(op['v'], str) else len(op['v']),
                           emitted=len(raw), consumed=used))
            continue
        ok = True
        if exp[0] == 'int':
            ok = v == exp[1] and not isinstance(v, float)
        elif exp[0] == 'float':
            ok = expect.num_equal(exp[1], v)
        elif exp[0] == 'str':
            ok = v == exp[1]
        elif exp[0] == 'dtime':
            wi, gi = expect.instant_ms(exp[1], tz), expect.decoded_instant_ms(v, tz)
            ok = abs(wi - gi) <= 1.0
            fp['value_class'] = 'dtime_naive' if exp[1].get('tz') is None else 'dtime_aware'
        if not ok:
            out.append(C.V('C06.decode_mismatch', fp, value=op['v'] if not isinstance(op['v'], str) else op['v'][:40], decoded=v,
                           bytes=st['bytes'][:80]))
    stats['state_sigs'].append('%s|n%d' % (tz, min(len(hist) // 4, 9)))
    return {'violations': out, 'stats': stats}
