"""C03 - channel data round-trips bit-exactly, one numbered record per row.

Dimension: rows reach the file through chunked, source-specific reads (input chunk schedule x source kind incl. real HDF5
I/O and the zero-copy structured-array path) and through state a previous write left on the channels (write sequence).
Oracle: FDATA records decoded with the descriptors of the same file vs the model's rows (after the declared cast only).
"""
import copy
from .. import gen, rp66, invariants as I, model as M
from . import common as C

ID = 'C03'
LEVEL = 'exploration'
LEVEL_TEXT = ('seeded exploration of frames (8 dtypes x byte order x layout x width, special values) x input chunk schedule x '
              'source kind x record length x a second write with other data; bit-exact decode vs model rows')
LEVEL_NOTE = ('trusted: sim/rp66.py, numpy astype for the declared cast and byte order of the expectation; '
              'bounds: <= 64 rows, width <= 48, <= 2 writes')
TIERS = {'quick': {'cases': 5000, 'wall': 40}, 'thorough': {'cases': 300000, 'wall': 780}}
RULE = ('case = seeded frames with data supplied inline/dict/structured/HDF5, written with a seeded input chunk size (and a '
        'second write with other data in a fraction); non-trivial = input chunk size smaller than the row count (several chunks '
        'were read) or a second write; distinct = case digest')
SPECIAL = {'f8': [0.0, -0.0, float('inf'), float('-inf'), float('nan'), 1.7976931348623157e308, 5e-324, 1.0],
           'f4': [0.0, -0.0, float('inf'), float('-inf'), float('nan'), 3.4028234663852886e38, 1e-45, 1.0],
           'i1': [-128, 127, 0, -1], 'i2': [-32768, 32767, 0, -1], 'i4': [-2147483648, 2147483647, 0, -1],
           'u1': [0, 255, 128, 1], 'u2': [0, 65535, 32768, 1], 'u4': [0, 4294967295, 2147483648, 1]}
SAFE_CASTS = {'i1': ['int16', 'int32', 'float32', 'float64'], 'i2': ['int32', 'float64'], 'u1': ['uint16', 'uint32', 'int16'],
              'u2': ['uint32', 'int32', 'float64'], 'f4': ['float64'], 'f8': ['float32'], 'i4': ['float64'], 'u4': ['float64']}


def gen_case(rng, tier, avoid):
    mrl = gen.record_length(rng, small=0.6)
    spec = gen.Spec(rng)
    spec.new_file(mrl=mrl)
    lfi = spec.logical_file()
    spec.origin(lfi)
    used = set()
    nfr = rng.choice([1, 1, 2])
    rows = rng.choice([1, 2, 3, 5, 8, 13, 21, rng.randint(1, 64)])
    if rng.random() < 0.06:
        rows = rng.choice([127, 128, 129, 130, 200])           # frame numbers across the 1-byte / 2-byte UVARI boundary
    if rng.random() < (0.003 if tier == 'thorough' else 0.0015):
        rows = rng.choice([16383, 16384, 16385, 16390])          # ... and across the 2-byte / 4-byte boundary
    own_sets = nfr > 1 and rng.random() < 0.4
    fused = set()
    for k in range(nfr):
        gen.frame_block(spec, lfi, rng, rows=rows if rng.random() < 0.7 else None, used=set() if own_sets else used,
                        max_width=rng.choice([4, 12, 48]) if rows < 1000 else 2, index=rng.random() < 0.3, set_name='FS%d' % k if own_sets else None,
                        frame_used=fused)
    # special values and casts
    for op in spec.ops:
        if op.get('op') == 'add' and op['kind'] == 'channel':
            rc = op['kwargs']['data']['$arr']
            dt = rc['dtype'][1:]
            if rc.get('kind') == 'rand' and rng.random() < 0.25:
                n = 1
                for s in rc['shape']:
                    n *= s
                sp = SPECIAL[dt]
                rc['kind'] = 'vals'
                rc['vals'] = [sp[(i * 7 + rng.randrange(len(sp))) % len(sp)] for i in range(n)]
                rc.pop('seed', None)
            if rng.random() < 0.15:
                op['kwargs']['cast_dtype'] = gen.cast_literal(rng, gen.pick(rng, SAFE_CASTS[dt]))
    kind = gen.pick(rng, ['inline', 'inline', 'dict', 'struct', 'h5'])
    crossed = False
    if kind == 'inline' and rng.random() < 0.2:
        # dataset names that cross channel names: a channel stores its array under the NAME of a channel added later
        chans = [op for op in spec.ops if op.get('op') == 'add' and op['kind'] == 'channel']
        if len(chans) > 1:
            i = rng.randrange(len(chans) - 1)
            j = rng.randrange(i + 1, len(chans))
            if 'dataset_name' not in chans[j]['kwargs'] and chans[i]['name'] != chans[j]['name']:
                chans[i]['kwargs']['dataset_name'] = chans[j]['name']
                crossed = True       # (the later channel's dataset name is then made unique by the library: no write(data=) here)
    if kind == 'inline' and not crossed:
        gen.alias_arrays(rng, spec.ops, p=0.08)      # one ndarray object given to two channels
    ops, data = spec.ops, None
    if kind != 'inline':
        ops, data = gen.externalize(spec.ops, kind, rng)
    allrows = gen.max_rows(spec)
    w1 = {'path': 'out1.dlis', 'input_chunk_size': gen.pick(rng, gen.ics_choices(rng, allrows) if allrows < 1000 else
                                                            [None, allrows, allrows - 1, 4096, 1000, 16384]),
          'output_chunk_size': gen.pick(rng, [mrl, mrl + 2 * rng.randint(0, 300), 1 << 20])}
    if allrows >= 1000:
        w1['output_chunk_size'] = 1 << 20        # (the file proxy snapshots the file at every flush: keep flushes few for long files)
    if w1['input_chunk_size'] is None:
        del w1['input_chunk_size']
    if data:
        w1['data'] = data
    minrows = min([rc['shape'][0] for op in spec.ops if op.get('op') == 'add' and op.get('kind') == 'channel'
                   for rc in [op['kwargs']['data']['$arr']]] or [1])
    if rng.random() < 0.25 and minrows > 1:
        # a row window: one record per selected input row, numbered from 1
        a = rng.randint(0, minrows - 1)
        w1['from_idx'] = a
        if rng.random() < 0.7:
            w1['to_idx'] = rng.randint(a + 1, minrows)
    writes = [w1]
    if rng.random() < 0.3 and kind in ('dict', 'inline') and not own_sets and not crossed:
        # second write with other data (same widths; other dtype unless the persisted-cast finding is avoided)
        chans = [(op['name'], op['kwargs'].get('dataset_name'), (op['kwargs'].get('data') or {}).get('$arr'))
                 for op in ops if op.get('op') == 'add' and op['kind'] == 'channel']
        arrays = []
        src = dict((k, rc) for k, rc in (data['arrays'] if data else []))
        for nm, dn, rc in chans:
            rc0 = rc or src.get(dn or nm)
            if rc0 is None:
                continue
            rc2 = copy.deepcopy(rc0)
            rc2['kind'] = 'rand'
            rc2.pop('vals', None)
            rc2.pop('start', None)
            rc2.pop('step', None)
            rc2.pop('jitter', None)
            rc2['seed'] = rng.randrange(1 << 30)
            if 'cast_persist' not in avoid and rng.random() < 0.4:
                rc2['dtype'] = {'f4': '<f8', 'u1': '<u2', 'i2': '<i4'}.get(rc2['dtype'][1:], rc2['dtype'])
            arrays.append([dn or nm, rc2])
        w2 = {'path': 'out2.dlis', 'output_chunk_size': 1 << 20, 'data': {'kind': 'dict', 'arrays': arrays}}
        if rng.random() < 0.4:
            # in between, the caller makes an assignment that is rejected and carries on
            bop = gen.rejected_assignment(rng, [o for o in ops if o.get('op') == 'add'], p_channel=0.9)
            if bop:
                writes.append(bop)
        writes.append(w2)
    if len(writes) == 1 and data is not None and data.get('kind') in ('struct', 'dict') and rng.random() < 0.3:
        # the same data OBJECT written a second time (another chunk size): what the first write did to it must not show
        w1['data'] = dict(data, share='d%08x' % rng.randrange(1 << 32))
        w2 = dict(w1, path='out2.dlis')
        w2['input_chunk_size'] = gen.pick(rng, [1, 2, 3, None])
        if w2['input_chunk_size'] is None:
            del w2['input_chunk_size']
        writes.append(w2)
    return {'scenario': {'env': {'tz': 'UTC'}, 'history': ops}, 'params': {'writes': writes, 'source': kind}}


def check_case(case, ex):
    hist = case['scenario']['history']
    fid = C.fid_of(hist)
    stats = C.new_stats(case)
    out = []
    wops = [dict({'op': 'write', 'fid': fid}, **w) if 'op' not in w else w for w in case['params']['writes']]
    sc, res = C.run(case, ex, wops, stats)
    m = M.build(sc['history'], res['steps'])
    n0 = len(hist)
    rows = C.rows_of(hist) if case['params']['source'] == 'inline' else max(
        [rc['shape'][0] for w in case['params']['writes'][:1] for _, rc in (w.get('data', {}).get('arrays') or
                                                                          w.get('data', {}).get('fields') or
                                                                          w.get('data', {}).get('datasets') or [])] or [1])
    kw = 0
    for k, wop in enumerate(wops):
        st = res['steps'][n0 + k]
        if wop['op'] != 'write':
            if st is not None and st.get('out') == 'exc':
                C.bump(stats['probes'], 'rejected_assignment_between_writes')
            continue
        kw += 1
        if st is None or st.get('out') != 'ok' or st.get('file') is None:
            C.bump(stats['probes'], 'valid_spec_rejected' if C.rejected_for_size(st) else 'write_%d_failed' % kw)
            continue
        dec = rp66.decode_file(st['file'])
        fp = {'source': case['params']['source'], 'write_no': kw, 'ics': C.ics_class(wop.get('input_chunk_size'), rows)}
        v, s = I.rows(m, dec, fid, wop, extra_fp=fp)
        out.extend(v)
        if not v:
            bad = [e for e in dec.errors if e.rule.startswith(('framing.', 'reasm.', 'iflr.fdata'))]
            if bad:
                out.append(C.V('C03.undecodable', dict(fp, why=bad[0].rule), **bad[0].detail))
        C.bump(stats['probes'], 'rows_checked', s['rows'])
        C.bump(stats['probes'], 'source_' + case['params']['source'])
        C.bump(stats['probes'], 'ics_' + fp['ics'])
        ics = wop.get('input_chunk_size')
        if (ics is not None and ics < rows) or kw > 1:
            stats['nontrivial'] = True
        stats['state_sigs'].append('%s|%s|w%d|r%d' % (fp['source'], fp['ics'], kw, min(rows // 8, 9)))
    return {'violations': out, 'stats': stats}
