"""C09 - each logical file has the mandated order: header, origin, sets, then data.

Dimension: the emission order is recomputed from registries whose insertion order is the call history: program order
permuted (origin first / middle / last, sets created in any order), several origins, named sets, several logical files.
Oracle: record-order automaton on the strictly decoded file.
"""
from .. import gen, genmeta, rp66, invariants as I, model as M
from . import common as C

ID = 'C09'
LEVEL = 'exploration'
LEVEL_TEXT = ('seeded exploration of call orders: dependency-respecting random permutations of add_* programs (origin anywhere), '
              'several origins, named sets, 1-3 logical files, header ids 0..65 chars, sequence numbers up to 10 digits; '
              'record-order automaton on the decoded file')
LEVEL_NOTE = 'trusted: sim/rp66.py; objects matched to the model by position in their set; sampling of call orders'
TIERS = {'quick': {'cases': 5000, 'wall': 40}, 'thorough': {'cases': 300000, 'wall': 780}}
RULE = ('case = seeded specification whose add_* calls are randomly permuted subject to reference dependencies; non-trivial = the '
        'defining origin was not the first object added to its logical file, or there are >= 2 logical files / origins; '
        'distinct = case digest (includes the permutation)')


def gen_case(rng, tier, avoid):
    n_lf = rng.choice([1, 1, 1, 2, 3])
    spec = gen.Spec(rng)
    spec.new_file(mrl=gen.record_length(rng, small=0.3))
    for li in range(n_lf):
        idlen = rng.choice([0, 1, 11, 64, 65, rng.randint(0, 65)])
        hid = ''.join(rng.choice('ABCDEFGHIJKLMNOPQRSTUVWXYZ-_ 0123456789abcxyz') for _ in range(idlen)).rstrip() if rng.random() < 0.7 else None
        kw = {}
        if hid is not None:
            kw['fh_id'] = hid
        if rng.random() < 0.6:
            kw['fh_sequence_number'] = rng.choice([1, 2, 10, 99999, 1234567890, 9999999999, rng.randint(1, 9999999999)])
        if rng.random() < 0.2:
            kw['fh_identifier'] = rng.choice('0123456789AZ')
        lfi = spec.logical_file(**kw)
        sn = {'set_name': 'LF%d' % li} if n_lf > 1 else ({'set_name': 'NAMED'} if rng.random() < 0.2 else {})
        n_or = rng.choice([1, 1, 2, 3])
        for k in range(n_or):
            okw = dict(sn)
            if n_or > 1 and rng.random() < 0.3 and 'set_name' not in okw:
                okw['set_name'] = 'OSET%d' % rng.randint(0, 1)
            if k and rng.random() < 0.4:
                okw['origin_reference'] = [5, 17, 130, 20000][k % 4] + li
            if rng.random() < 0.1:
                # FILE-SET-NUMBER handed over in a wrapper that carries no value (e.g. AttrSetup(value=cfg.get(...)) with
                # nothing configured): the same as not given - the documented default applies
                okw['file_set_number'] = rng.choice([{'$dict': {}}, {'$setup': {}}, {'$setup': {'value': None}}])
            spec.origin(lfi, nm='ORIGIN-%d-%d' % (li, k), **okw)
        used = set()
        for _ in range(rng.choice([1, 1, 2])):
            gen.frame_block(spec, lfi, rng, used=used, max_width=4)
        if rng.random() < 0.5:
            spec.no_format(lfi, 'NF%d' % li, [gen.payload(rng, spec.mrl - 8) for _ in range(rng.choice([1, 2]))])
        if sn:
            for op in spec.ops:
                if op.get('op') == 'add' and op.get('lf') == lfi['lf'] and op['kind'] != 'origin':
                    op['kwargs'].setdefault('set_name', sn['set_name'])
        genmeta.populate(spec, lfi, rng, n=rng.choice([0, 2, 4, 7]), routes=False, set_name=sn.get('set_name'), p_attr=0.3)
    ops = spec.ops
    if rng.random() < 0.25:
        # calls the library rejects (the sets they touched first must neither appear nor disturb the mandated order)
        from . import c20
        for n in range(rng.choice([1, 2])):
            sb = c20.schema_bad(rng, spec.lfs[0], n)
            if sb:
                ops.insert(rng.randint(2, len(ops)), sb[0])
    mode = rng.choice(['as_is', 'shuffle', 'shuffle', 'origin_last'])
    if n_lf > 1 and 'cross_lf_backfill' in avoid:
        mode = 'as_is'
    if mode == 'shuffle':
        ops = gen.toposhuffle(rng, ops)
    elif mode == 'origin_last':
        orig = [op for op in ops if op.get('op') == 'add' and op['kind'] == 'origin']
        rest = [op for op in ops if not (op.get('op') == 'add' and op['kind'] == 'origin')]
        ops = rest + orig
    rewrite = None
    if rng.random() < 0.2:
        # the next file of a set from the same specification: written once, then header sequence number / id changed, written again
        rewrite = []
        for lfi in spec.lfs:
            if rng.random() < 0.8:
                rewrite.append({'op': 'set_fh', 'lf': lfi['lf'], 'prop': 'sequence_number',
                                'v': rng.choice([2, 3, 10, 99999, 9999999999, rng.randint(1, 9999999999)])})
            if rng.random() < 0.5:
                nid = 'NEXT-%d' % rng.randint(0, 999)
                first_o = next((op for op in ops if op.get('op') == 'add' and op['kind'] == 'origin' and op['lf'] == lfi['lf']), None)
                rewrite.append({'op': 'set_fh', 'lf': lfi['lf'], 'prop': 'header_id', 'v': nid})
                if first_o is not None:
                    rewrite.append({'op': 'set', 'h': first_o['h'], 'attr': 'file_id', 'part': 'value', 'v': nid, 'c': 0})
    return {'scenario': {'env': {'tz': 'UTC'}, 'history': ops}, 'params': {'mode': mode, 'n_lf': n_lf, 'rewrite': rewrite}}


def origin_position(hist):
    """class of where the first origin of the first logical file sits among that logical file's add ops"""
    adds = [op for op in hist if op.get('op') == 'add']
    if not adds:
        return 'none'
    lf0 = adds[0]['lf']
    mine = [op for op in adds if op['lf'] == lf0]
    pos = next((i for i, op in enumerate(mine) if op['kind'] == 'origin'), None)
    if pos is None:
        return 'none'
    return 'first' if pos == 0 else ('last' if pos == len(mine) - 1 else 'middle')


def check_case(case, ex):
    hist = case['scenario']['history']
    fid = C.fid_of(hist)
    stats = C.new_stats(case)
    out = []
    rw = case['params'].get('rewrite')
    pre = ([C.wop(fid, output_chunk_size=1 << 20, path='first.dlis')] + rw) if rw else []
    sc, res = C.run(case, ex, pre + [C.wop(fid, output_chunk_size=1 << 20)], stats)
    m, dec, st = C.model_and_decode(sc, res)
    if rw:
        C.bump(stats['probes'], 'rewritten_after_header_change')
    pos = origin_position(hist)
    n_or = sum(1 for op in hist if op.get('op') == 'add' and op['kind'] == 'origin')
    if dec is None:
        C.bump(stats['probes'], 'valid_spec_rejected' if C.rejected_for_size(st) else 'write_failed')
        if st is not None and st.get('out') == 'exc':
            C.bump(stats['probes'], 'write_exc_' + str(st.get('exc')))
        return {'violations': out, 'stats': stats}
    fp = {'origin_pos': pos, 'n_lf': min(case['params']['n_lf'], 3), 'rewritten': bool(rw), 'named_sets': any(
        (op.get('kwargs') or {}).get('set_name') for op in hist if op.get('op') == 'add')}
    out.extend(I.record_order(m, dec, fid, extra_fp=fp))
    bad = [e for e in dec.errors if e.rule.startswith(('framing.', 'reasm.')) or (
        e.rule.startswith(('eflr.', 'decode.')) and e.rule != 'eflr.set_without_objects' and
        e.detail.get('set') in ('FILE-HEADER', 'ORIGIN', None))]
    if bad and not out:
        out.append(C.V('C09.undecodable', dict(fp, why=bad[0].rule), **bad[0].detail))
    elif dec.errors and not out:
        C.bump(stats['skipped'], 'other_set_undecodable')
    C.bump(stats['probes'], 'origin_' + pos)
    stats['nontrivial'] = pos in ('middle', 'last') or case['params']['n_lf'] > 1 or n_or > 1
    stats['interleaving'] = C.digest([op.get('h') or op.get('op') for op in hist])
    stats['state_sigs'].append('%s|lf%d|or%d|%s' % (pos, case['params']['n_lf'], min(n_or, 4), case['params']['mode']))
    return {'violations': out, 'stats': stats}
