"""C19 - writing never alters the caller's data.

Dimension: the structured-array fast path hands out views; the statement includes *failed* writes, which only a fault can
produce at an arbitrary chunk: F1/F2/F3 at every I/O event, HDF5 read errors at the k-th read, interrupts at seeded lines.
Oracle: invariant around every write: SHA-256 of every caller-owned buffer (incl. guard regions around views), identity of the
values and keys of the data dict, bytes of the HDF5 file - unchanged.
"""
import copy
import random
from .. import gen
from . import common as C
from .c03 import SAFE_CASTS

ID = 'C19'
LEVEL = 'fault_enumeration'
LEVEL_TEXT = ('fault enumeration: a fault-free run yields the I/O event list, HDF5 read count and line count of the write; then '
              'open/write/close errors are injected at every I/O event (thorough, stratified to 400 plans per case when a run has more; seeded sample in quick), read errors at seeded '
              'reads and interrupts at seeded lines, so the write is abandoned after 0..all chunks; buffer checksums around each write')
LEVEL_NOTE = ('trusted: harness keeps the only references to the caller buffers and checksums their base memory (guards included); '
              'read-only arrays are part of the workload (an in-place write would raise - not forbidden by this property)')
TIERS = {'quick': {'cases': 1400, 'wall': 45, 'faults_per_case': 6}, 'thorough': {'cases': 100000, 'wall': 840, 'faults_per_case': 400}}
RULE = ('case = seeded frames supplied inline / dict / structured array (also as a view into a larger buffer) / HDF5, with casts, '
        'windows and input chunk sizes, written fault-free and once per enumerated fault; non-trivial = a fault fired and the write '
        'was abandoned, or the source is a zero-copy view; distinct = case digest')


def gen_case(rng, tier, avoid):
    mrl = gen.record_length(rng, small=0.5)
    spec = gen.Spec(rng)
    spec.new_file(mrl=mrl)
    lfi = spec.logical_file()
    spec.origin(lfi)
    rows = rng.choice([2, 3, 5, 9, 16, 30])
    used = set()
    for _ in range(rng.choice([1, 1, 2])):
        gen.frame_block(spec, lfi, rng, rows=rows, used=used, max_width=6, index=rng.random() < 0.3)
    for op in spec.ops:
        if op.get('op') == 'add' and op['kind'] == 'channel':
            rc = op['kwargs']['data']['$arr']
            if rng.random() < 0.3:
                rc['layout'] = 'view'
            if rng.random() < 0.25:
                op['kwargs']['cast_dtype'] = gen.cast_literal(rng, gen.pick(rng, SAFE_CASTS[rc['dtype'][1:]]))
            elif rng.random() < 0.15:
                # any other cast (values may change or saturate - the caller's buffer still may not)
                op['kwargs']['cast_dtype'] = gen.cast_literal(rng, gen.pick(rng, ['int8', 'int16', 'int32', 'uint8', 'uint16', 'uint32',
                                                                                    'float32', 'float64']))
            if rng.random() < 0.12:
                rc['masked'] = rng.randrange(1 << 16)      # a masked array: neither the data under the mask nor the mask may change
            if rc['dtype'][1] == 'f' and rng.random() < 0.3:
                n = rc['shape'][0] * (rc['shape'][1] if len(rc['shape']) > 1 else 1)
                rc['specials'] = [[rng.randrange(max(n, 1)), rng.choice(['nan', 'nan', 'inf', '-inf', '-0'])]
                                  for _ in range(rng.choice([1, 2, 4]))]
    kind = gen.pick(rng, ['inline', 'dict', 'dict', 'struct', 'struct', 'h5'])
    if kind == 'inline':
        gen.alias_arrays(rng, spec.ops, p=0.25, keep_cast=True)      # one ndarray object given to two channels (possibly with different casts)
    ops, data = spec.ops, None
    if kind != 'inline':
        # (dict: in half of the cases only some channels move to the write-time dict, the others keep their inline arrays)
        ops, data = gen.externalize(spec.ops, kind, rng, partial=(kind == 'dict' and rng.random() < 0.5))
        if data['kind'] == 'struct':
            data['layout'] = rng.choice(['plain', 'view', 'view', 'readonly'])
            if rng.random() < 0.5:
                # make the frame's dtype coincide with the source's: no casts, field order == channel order -> fast path
                for op in ops:
                    if op.get('kind') == 'channel':
                        op['kwargs'].pop('cast_dtype', None)
    w = {'output_chunk_size': gen.pick(rng, [mrl, mrl + 100, 1 << 20])}
    ics = gen.pick(rng, gen.ics_choices(rng, rows))
    if ics is not None:
        w['input_chunk_size'] = ics
    if rng.random() < 0.4:
        a = rng.randint(0, rows - 1)
        w['from_idx'] = a
        w['to_idx'] = rng.randint(a + 1, rows)
    if data:
        w['data'] = data
    return {'scenario': {'env': {'tz': 'UTC'}, 'history': ops},
            'params': {'write': w, 'source': kind if not data else data['kind'], 'pick': [rng.random() for _ in range(16)],
                       'n_faults': TIERS[tier]['faults_per_case']}}


def _judge(st, fp, out):
    if st.get('buf_changed'):
        out.append(C.V('C19.buffer_changed', fp, buffers=st['buf_changed'], n_buffers=st.get('n_buffers')))
    if st.get('dict_same') is False:
        out.append(C.V('C19.dict_changed', fp))


def check_case(case, ex):
    hist = case['scenario']['history']
    Pm = case['params']
    fid = C.fid_of(hist)
    stats = C.new_stats(case)
    out = []
    w = dict({'op': 'write', 'fid': fid, 'path': 'out.dlis', 'count_lines': True}, **Pm['write'])
    sc, res = C.run(case, ex, [w], stats)
    st = C.last_write(res)
    if st is None or st.get('out') == 'skip':
        return {'violations': out, 'stats': stats}
    view = Pm['source'] == 'struct' and (Pm['write'].get('data') or {}).get('layout') == 'view'
    fp = {'source': Pm['source'], 'outcome': st['out'], 'fault': None, 'view': view}
    _judge(st, fp, out)
    C.bump(stats['probes'], 'source_' + Pm['source'])
    C.bump(stats['probes'], 'buffers_tracked', st.get('n_buffers') or 0)
    if view:
        stats['nontrivial'] = True
    if st['out'] != 'ok':
        C.bump(stats['probes'], 'fault_free_write_raised')
        return {'violations': out, 'stats': stats}
    io = st.get('io') or []
    lines = st.get('lines') or 0
    plans = []
    for ev in io:
        if ev['k'] == 'open':
            plans.append([{'kind': 'open_fail', 'at_event': ev['i'], 'errno': 24}])
        elif ev['k'] == 'write':
            plans.append([{'kind': 'write_fail', 'at_event': ev['i'], 'partial': ev['n'] // 3, 'errno': 28}])
        else:
            plans.append([{'kind': 'close_fail', 'at_event': ev['i'], 'lose': 1}])
    pk = Pm['pick']
    if Pm['source'] == 'h5':
        for p in pk[:4]:
            plans.append([{'kind': 'h5_read', 'at_read': 1 + int(p * 12)}])
    if lines and Pm.get('n_faults', 0) >= 100 and pk[9] < 0.1:
        # thorough, a tenth of the cases: stratified sweep over the line events of the write (<= 100 interrupt points)
        k = max(lines // 100, 1)
        for ln in range(1 + int(pk[10] * k), lines + 1, k):
            plans.append([{'kind': 'interrupt', 'at_line': ln}])
    elif lines:
        for p in pk[4:8]:
            plans.append([{'kind': 'interrupt', 'at_line': 1 + int(p * (lines - 1))}])
    nmax = Pm.get('n_faults', 6)
    plans = C.pick_plans(plans, nmax, Pm['pick'])
    for plan in plans:
        w2 = dict(w, faults=plan)
        w2.pop('count_lines', None)
        _, r2 = C.run(case, ex, [w2], stats)
        s2 = C.last_write(r2)
        kind = plan[0]['kind']
        if kind not in (s2.get('faults_fired') or []):
            C.bump(stats['probes'], 'fault_did_not_fire')
            continue
        C.bump(stats['faults'], kind)
        if s2['out'] != 'ok':
            stats['nontrivial'] = True
            C.bump(stats['probes'], 'write_abandoned')
        _judge(s2, dict(fp, outcome=s2['out'], fault=kind), out)
        stats['state_sigs'].append('%s|%s|%s|ev%s' % (Pm['source'], kind, s2['out'], min(plan[0].get('at_event', 0), 9)))
    return {'violations': out, 'stats': stats}
