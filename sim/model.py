"""Specification model: a plain-dict reference model updated op by op, only for ops that returned normally.

Nothing here reads dliswriter classes.  Objects are matched to decoded objects by position in their set
(k-th successful add into set (type, set_name) of a logical file <-> k-th object component).
"""
import numpy as np

from . import values

SET_TYPE = {
    'origin': 'ORIGIN', 'well_reference_point': 'WELL-REFERENCE', 'axis': 'AXIS', 'long_name': 'LONG-NAME',
    'channel': 'CHANNEL', 'frame': 'FRAME', 'path': 'PATH', 'zone': 'ZONE', 'parameter': 'PARAMETER',
    'equipment': 'EQUIPMENT', 'tool': 'TOOL', 'computation': 'COMPUTATION', 'process': 'PROCESS',
    'calibration_measurement': 'CALIBRATION-MEASUREMENT', 'calibration_coefficient': 'CALIBRATION-COEFFICIENT',
    'calibration': 'CALIBRATION', 'group': 'GROUP', 'splice': 'SPLICE', 'no_format': 'NO-FORMAT', 'message': 'MESSAGE',
    'comment': 'COMMENT',
}
LR_TYPE = {'FILE-HEADER': 0, 'ORIGIN': 1, 'WELL-REFERENCE': 1, 'AXIS': 2, 'CHANNEL': 3, 'FRAME': 4, 'PATH': 4,
           'ZONE': 5, 'PARAMETER': 5, 'EQUIPMENT': 5, 'TOOL': 5, 'COMPUTATION': 5, 'PROCESS': 5,
           'CALIBRATION-MEASUREMENT': 5, 'CALIBRATION-COEFFICIENT': 5, 'CALIBRATION': 5, 'GROUP': 5, 'SPLICE': 5,
           'NO-FORMAT': 8, 'MESSAGE': 6, 'COMMENT': 6, 'LONG-NAME': 9}
DT_CODE = {'i1': 12, 'i2': 13, 'i4': 14, 'u1': 15, 'u2': 16, 'u4': 17, 'f4': 2, 'f8': 7}
NP_CODE = {'int8': 12, 'int16': 13, 'int32': 14, 'uint8': 15, 'uint16': 16, 'uint32': 17, 'float32': 2, 'float64': 7}


class MObj:
    def __init__(self, h, kind, name, kwargs, lf, step):
        self.h, self.kind, self.name, self.lf, self.step = h, kind, name, lf, step
        self.kwargs = dict(kwargs or {})
        self.set_name = self.kwargs.pop('set_name', None)
        self.origin_reference = self.kwargs.pop('origin_reference', None)
        self.sets_later = []      # [(attr, part, literal, step)]
        self.props_later = []     # [(prop, literal, step)]
        self.after_write = False
        self.now = None
        self.rng_seed = None
        self.in_hc = False

    @property
    def set_type(self):
        return SET_TYPE[self.kind]


class MLF:
    def __init__(self, lf, fid, kwargs):
        self.lf, self.fid, self.kwargs = lf, fid, dict(kwargs or {})
        self.objects = []         # [MObj] in creation order
        self.nf_data = []         # [(handle of NO-FORMAT object, payload literal)]

    def of_kind(self, kind):
        return [o for o in self.objects if o.kind == kind]

    def sets(self):
        """[(set_type, set_name, [MObj])] in first-use order."""
        order, d = [], {}
        for o in self.objects:
            k = (o.set_type, o.set_name)
            if k not in d:
                d[k] = []
                order.append(k)
            d[k].append(o)
        return [(k[0], k[1], d[k]) for k in order]


class MFile:
    def __init__(self, fid, kwargs, sul=None):
        self.fid = fid
        self.kwargs = dict(kwargs or {})
        if sul:
            self.kwargs = {'set_identifier': sul.get('set_identifier'), 'sul_sequence_number': sul.get('sequence_number', 1),
                           'max_record_length': sul.get('max_record_length', 8192)}
        self.lfs = []
        self.writes = 0

    @property
    def mrl(self):
        return self.kwargs.get('max_record_length', 8192)


class Model:
    def __init__(self):
        self.files = {}
        self.lfs = {}
        self.objs = {}
        self.nf_records = {}
        self.hc_depth = 0

    def apply(self, op, st, step, hc=False):
        """Update the model with op if its step result `st` says it returned normally."""
        if st is None or st.get('out') != 'ok':
            return
        o = op['op']
        if o == 'new_file':
            self.files[op['fid']] = MFile(op['fid'], op.get('kwargs'), op.get('sul'))
        elif o == 'add_lf':
            lf = MLF(op['lf'], op['fid'], op.get('kwargs'))
            self.lfs[op['lf']] = lf
            self.files[op['fid']].lfs.append(lf)
        elif o == 'add':
            lf = self.lfs[op['lf']]
            m = MObj(op['h'], op['kind'], op.get('name'), op.get('kwargs'), lf, step)
            m.now, m.rng_seed, m.in_hc = op.get('now'), op.get('rng_seed'), hc
            m.after_write = self.files[lf.fid].writes > 0
            lf.objects.append(m)
            self.objs[op['h']] = m
        elif o == 'nf_data':
            self.lfs[op['lf']].nf_data.append((op['nf']['$ref'], op['data']))
            if op.get('h'):
                self.nf_records[op['h']] = (op['lf'], len(self.lfs[op['lf']].nf_data) - 1)
        elif o == 'set':
            self.objs[op['h']].sets_later.append((op['attr'], op.get('part', 'value'), op['v'], step))
        elif o == 'set_attrs':
            for an, lit in (op.get('kwargs') or {}).items():
                inner = lit.get('$dict') if isinstance(lit, dict) and '$dict' in lit else (
                    lit.get('$setup') if isinstance(lit, dict) and '$setup' in lit else None)
                if inner is None:
                    self.objs[op['h']].sets_later.append((an, 'value', lit, step))
                else:
                    for part in ('value', 'units'):
                        if inner.get(part) is not None:
                            self.objs[op['h']].sets_later.append((an, part, inner[part], step))
        elif o == 'set_prop' and op['h'] in self.nf_records:
            lf, k = self.nf_records[op['h']]
            if op['prop'] == 'data':
                self.lfs[lf].nf_data[k] = (self.lfs[lf].nf_data[k][0], op['v'])
        elif o == 'set_prop':
            self.objs[op['h']].props_later.append((op['prop'], op['v'], step))
        elif o == 'set_fh':
            self.lfs[op['lf']].kwargs[{'sequence_number': 'fh_sequence_number', 'header_id': 'fh_id'}[op['prop']]] = op['v']
        elif o == 'set_sul':
            key = {'sequence_number': 'sul_sequence_number'}.get(op['prop'], op['prop'])
            self.files[op['fid']].kwargs[key] = op['v']
        elif o == 'write':
            self.files[op['fid']].writes += 1

    def run(self, history, steps, upto=None):
        """Apply history[0:upto] using recorded step outcomes (handles hc_block bodies)."""
        n = len(history) if upto is None else upto
        for i in range(n):
            self._apply_rec(history[i], steps[i] if i < len(steps) else None, i, False)
        return self

    def _apply_rec(self, op, st, i, hc):
        if op.get('op') == 'hc_block':
            body = op.get('body', [])
            bres = (st or {}).get('body') or []
            for k, bop in enumerate(body):
                if k < len(bres):
                    self._apply_rec(bop, bres[k], i, True)
        elif op.get('op') != 'restart':
            self.apply(op, st, i, hc)


def build(history, steps, upto=None):
    return Model().run(history, steps, upto)


# --------------------------------------------------------------------------------------
# data expectations

def payload_bytes(lit):
    if isinstance(lit, str):
        return lit.encode('ascii')
    if isinstance(lit, dict):
        if '$text' in lit:
            return lit['$text'].encode('ascii')
        if '$bytes' in lit:
            return bytes.fromhex(lit['$bytes'])
        if '$bytearray' in lit:
            return bytes.fromhex(lit['$bytearray'])
    raise ValueError('not a payload literal: %r' % (lit,))


def cast_of(m):
    """Declared cast dtype name of a channel model object (latest assignment wins) or None."""
    c = m.kwargs.get('cast_dtype')
    for prop, lit, _ in m.props_later:
        if prop == 'cast_dtype':
            c = lit
    if c is None:
        return None
    if '$dtype' in c:
        return np.dtype(c['$dtype']).name
    if '$npdtype' in c:
        return np.dtype(c['$npdtype']).name
    return None


def dataset_name(m):
    dn = m.kwargs.get('dataset_name')
    for prop, lit, _ in m.props_later:
        if prop == 'dataset_name':
            dn = lit
    return dn if dn is not None else m.name


def source_arrays(write_op):
    """{dataset key: recipe} supplied through the write op's data argument."""
    d = write_op.get('data')
    if not d:
        return {}
    if d['kind'] == 'dict':
        return {k: rc for k, rc in d['arrays']}
    if d['kind'] == 'struct':
        return {k: rc for k, rc in d['fields']}
    if d['kind'] == 'h5':
        out = {}
        for k, rc in d['datasets']:
            out[k.lstrip('/')] = rc
            out['/' + k.lstrip('/')] = rc
        return out
    return {}


def channel_array(m, write_op):
    """The numpy array the user supplied for channel m in this write (inline or via data=), or None."""
    src = source_arrays(write_op)
    dn = dataset_name(m)
    if dn in src:
        return values.make_array(src[dn])
    d = m.kwargs.get('data')
    if isinstance(d, dict) and '$arr' in d:
        return values.make_array(d['$arr'])
    return None


def expected_rows(frame_m, model, write_op):
    """(list of per-row [slot bytes per channel], info) for a frame, per the specification; None if not derivable."""
    chans = [model.objs[r['$ref']] for r in _lit_list(frame_m.kwargs.get('channels'))]
    f0 = write_op.get('from_idx', 0) or 0
    t0 = write_op.get('to_idx')
    cols = []
    info = []
    for c in chans:
        a = channel_array(c, write_op)
        if a is None:
            return None, None
        a = a[f0:t0]
        cast = cast_of(c)
        nat = np.dtype(cast) if cast else a.dtype.newbyteorder('=')
        be = nat.newbyteorder('>')
        with np.errstate(all='ignore'):
            b = np.ascontiguousarray(a).astype(be)
        cols.append(b)
        info.append({'name': c.name, 'dtype': nat.name, 'code': NP_CODE[nat.name], 'shape': list(a.shape[1:]) or [1],
                     'src_dtype': a.dtype.str, 'cast': cast})
    n = cols[0].shape[0] if cols else 0
    rows = []
    for i in range(n):
        rows.append([col[i:i + 1].tobytes() for col in cols])
    return rows, info


def row_counts(frame_m, model, write_op):
    chans = [model.objs[r['$ref']] for r in _lit_list(frame_m.kwargs.get('channels'))]
    f0 = write_op.get('from_idx', 0) or 0
    t0 = write_op.get('to_idx')
    out = []
    for c in chans:
        a = channel_array(c, write_op)
        if a is not None:
            out.append(int(a[f0:t0].shape[0]))
    return out


def _lit_list(v):
    if v is None:
        return []
    if isinstance(v, dict) and '$setup' in v:
        v = v['$setup'].get('value')
    if isinstance(v, dict) and '$dict' in v:
        v = v['$dict'].get('value')
    if isinstance(v, dict) and '$tuple' in v:
        v = v['$tuple']
    return v if isinstance(v, list) else [v]


def match_sets(lf_model, lf_dec):
    """Pair model sets with decoded sets by (type, name). -> [(type, name, [MObj], SetRec|None)], unmatched decoded sets"""
    out = []
    used = set()
    for st, sn, objs in lf_model.sets():
        cand = [s for s in lf_dec.sets if s.type == st and (s.name or None) == (sn or None) and id(s) not in used]
        s = cand[0] if cand else None
        if s is not None:
            used.add(id(s))
        out.append((st, sn, objs, s))
    rest = [s for s in lf_dec.sets if id(s) not in used and s.type != 'FILE-HEADER']
    return out, rest


def locate(model, dec_file, fid):
    """{handle: decoded Obj} by positional matching, for the file `fid`. Also returns per-lf pairing list."""
    mf = model.files[fid]
    loc = {}
    pairs = []
    for li, lfm in enumerate(mf.lfs):
        if li >= len(dec_file.lfs):
            pairs.append((lfm, None, [], []))
            continue
        lfd = dec_file.lfs[li]
        ms, rest = match_sets(lfm, lfd)
        for st, sn, objs, s in ms:
            if s is None:
                continue
            for k, m in enumerate(objs):
                if k < len(s.objects):
                    loc[m.h] = (s, s.objects[k], li)
        pairs.append((lfm, lfd, ms, rest))
    return loc, pairs
