"""Check driver: seeded case loop, known findings, shrinking, replay files, evidence."""
import os
import re
import sys
import json
import time
import copy
import random
import hashlib
import importlib
import subprocess

from . import runner, shrink

ROOT = os.path.dirname(os.path.dirname(os.path.abspath(__file__)))
KNOWN = os.path.join(ROOT, 'KNOWN_FINDINGS.txt')
PROPS = ['C01', 'C02', 'C03', 'C05', 'C06', 'C07', 'C08', 'C09', 'C10', 'C11', 'C12', 'C13', 'C14', 'C16', 'C17', 'C18',
         'C19', 'C20']


def oracle(prop):
    return importlib.import_module('sim.oracles.%s' % prop.lower())


def jdefault(o):
    if isinstance(o, (bytes, bytearray)):
        return {'$hex': bytes(o[:256]).hex(), 'len': len(o)}
    if isinstance(o, (set, frozenset)):
        return sorted(o)
    if isinstance(o, tuple):
        return list(o)
    try:
        import numpy as np
        if isinstance(o, np.generic):
            return o.item()
    except Exception:
        pass
    return repr(o)


def canon(obj):
    """Canonical text of an execution result (bytes replaced by length + hash): the event log that must replay."""
    def d(o):
        if isinstance(o, (bytes, bytearray)):
            return {'$sha': hashlib.sha256(bytes(o)).hexdigest()[:20], 'len': len(o)}
        return jdefault(o)
    return json.dumps(obj, sort_keys=True, default=d)


def digest(obj):
    return hashlib.sha256(json.dumps(obj, sort_keys=True, default=jdefault).encode()).hexdigest()[:16]


# --------------------------------------------------------------------------------------
# known findings

class Finding:
    def __init__(self, state, prop, rule, match, replay, text, avoid, commit=None):
        self.state, self.prop, self.rule, self.match, self.replay, self.text, self.avoid, self.commit = \
            state, prop, rule, match, replay, text, avoid, commit

    def matches(self, v):
        if self.rule:
            if self.rule.endswith('*'):
                if not v['rule'].startswith(self.rule[:-1]):
                    return False
            elif v['rule'] != self.rule:
                return False
        fp = v.get('fp') or {}
        for k, want in (self.match or {}).items():
            got = fp.get(k)
            if isinstance(want, list):
                if got not in want:
                    return False
            elif got != want:
                return False
        return True


def load_findings(path=KNOWN):
    out = []
    if not os.path.exists(path):
        return out
    for line in open(path):
        line = line.strip()
        if not line or line.startswith('#'):
            continue
        m = re.match(r'^(open|fixed):\s+property=(C\d+)\s+(.*)$', line)
        if not m:
            continue
        state, prop, rest = m.groups()
        head, _, text = rest.partition('::')
        commit = None
        if state == 'fixed':
            mc = re.match(r'^([0-9a-f]{7,40})\s+(.*)$', head)
            if mc:
                commit, head = mc.groups()
        rule = (re.search(r'rule=(\S+)', head) or [None, None])[1]
        replay = (re.search(r'replay=(\S+)', head) or [None, None])[1]
        avoid = (re.search(r'avoid=(\S+)', head) or [None, None])[1]
        mm = re.search(r'match=(\{.*?\})(\s|$)', head)
        match = json.loads(mm.group(1)) if mm else {}
        out.append(Finding(state, prop, rule, match, replay, text.strip() or head.strip(), avoid, commit))
    return out


def avoid_tags(findings):
    tags = set()
    for f in findings:
        if f.state == 'open' and f.avoid:
            tags.update(f.avoid.split(','))
    return tags


# --------------------------------------------------------------------------------------
# case execution (runs in pool workers)

def case_rng(seed, prop, idx):
    return random.Random('%s:%s:%s' % (seed, prop, idx))


def run_case(item):
    prop, seed, idx, tier, avoid = item[:5]
    own = set(item[5]) if len(item) > 5 else set(avoid)
    o = oracle(prop)
    rng = case_rng(seed, prop, idx)
    avoid = set(avoid)
    if avoid and rng.random() < 0.12:
        avoid = avoid - own    # a minority of runs confirms this property's own known findings are still there
    from . import gen as _gen
    _gen.AVOID = set(avoid)
    case = o.gen_case(rng, tier, avoid)
    case['property'] = prop
    case['seed'] = seed
    case['idx'] = idx
    h = hashlib.sha256()

    def ex(sc):
        r = runner.execute(sc)
        h.update(canon(r['steps']).encode())
        return r
    res = o.check_case(case, ex)
    res['idx'] = idx
    res['trace'] = h.hexdigest()[:20]
    res.setdefault('stats', {})['sim_time_s'] = sim_span(case.get('scenario', {}).get('history', []))
    res['avoid_on'] = bool(avoid)
    if res['violations'] or idx < 3:
        res['case'] = case
    return res


def sim_span(history):
    """Simulated time covered by a scenario: span of the clock values its ops set (seconds)."""
    import datetime as _dt
    ts = []

    def walk(ops):
        for op in ops:
            if op.get('now'):
                try:
                    ts.append(_dt.datetime.fromisoformat(op['now']))
                except ValueError:
                    pass
            if op.get('op') == 'hc_block':
                walk(op.get('body', []))
    walk(history)
    return (max(ts) - min(ts)).total_seconds() if len(ts) > 1 else 0.0


def check_only(item):
    prop, case = item
    o = oracle(prop)
    return o.check_case(case, runner.execute)


# --------------------------------------------------------------------------------------
# replay files

def write_replay(prop, case, violation, extra=None):
    os.makedirs(os.path.join(ROOT, 'replays'), exist_ok=True)
    rec = {'format': 1, 'engine': 'sim/1', 'property': prop, 'rule': violation['rule'], 'fingerprint': violation.get('fp'),
           'detail': violation.get('detail'), 'seed': case.get('seed'), 'idx': case.get('idx'), 'case': case}
    if extra:
        rec.update(extra)
    rec['repo'] = repo_state()
    name = '%s-%s-%s-%s.json' % (prop, case.get('seed'), case.get('idx'), digest([violation['rule'], case])[:10])
    path = os.path.join(ROOT, 'replays', name)
    with open(path, 'w') as f:
        json.dump(rec, f, indent=1, default=jdefault, sort_keys=True)
    return path


def repo_state():
    src = os.environ.get('VERIF_REPO', '/repo')
    try:
        head = subprocess.run(['git', '-C', src, 'rev-parse', '--short', 'HEAD'], capture_output=True, text=True,
                              timeout=10).stdout.strip()
        dirty = subprocess.run(['git', '-C', src, 'status', '--porcelain'], capture_output=True, text=True,
                               timeout=10).stdout
        return {'head': head, 'dirty': bool(dirty.strip())}
    except Exception:
        return {}


def replay_file(path, prop=None):
    rec = json.load(open(path))
    prop = prop or rec['property']
    case = rec['case']
    res = oracle(prop).check_case(case, runner.execute)
    same = [v for v in res['violations'] if v['rule'] == rec['rule']]
    return rec, res, same


# --------------------------------------------------------------------------------------
# main check loop

def main_check(prop, tier, seed, cases=None, wall=None, workers=None, out=sys.stdout):
    t0 = time.monotonic()
    o = oracle(prop)
    cfg = dict(o.TIERS[tier])
    if cases:
        cfg['cases'] = cases
    if wall:
        cfg['wall'] = wall
    findings = load_findings()
    mine = [f for f in findings if f.prop == prop]
    avoid = sorted(avoid_tags(findings))
    runner.warm()

    violations_unknown = []
    known_hits = {}
    harness = []
    exit_code = 0

    # 1. committed replays of listed findings
    for f in mine:
        if not f.replay:
            if f.state == 'open':
                print('KNOWN-FINDING: property=%s %s (no replay file)' % (prop, f.text), file=out)
            continue
        p = os.path.join(ROOT, f.replay)
        if not os.path.exists(p):
            if f.state == 'open':
                print('KNOWN-FINDING: property=%s %s reproduced=unknown (replay file %s missing)' % (prop, f.text, f.replay), file=out)
            continue
        try:
            rr = runner.run_cases('sim.engine', 'replay_worker', [(p, prop)], workers=1)[0]
        except Exception as e:     # pragma: no cover
            rr = {'ok': False, 'kind': 'HARNESS-ERROR', 'detail': repr(e)}
        if not rr['ok']:
            harness.append(rr)
            continue
        same = rr['value']
        if f.state == 'open':
            print('KNOWN-FINDING: property=%s %s reproduced=%s' % (prop, f.text, 'yes' if same else 'no'), file=out)
            known_hits.setdefault(f.text, 0)
        else:
            if same:
                print('VIOLATION property=%s replay=%s' % (prop, p), file=out)
                print('  (a finding recorded as fixed fails again: %s)' % f.text, file=out)
                exit_code = 1

    # 2. seeded exploration
    n = cfg['cases']
    deadline = t0 + cfg['wall']
    own = sorted(avoid_tags(mine))
    items = [(prop, seed, i, tier, avoid, own) for i in range(n)]
    agg = Aggregate()
    results = runner.run_cases('sim.engine', 'run_case', items, workers=workers, deadline=deadline)
    retry = []
    for i, r in enumerate(results):
        if r is None:
            continue
        if not r['ok']:
            if r['kind'] == 'HARNESS-TIMEOUT':
                retry.append(items[i])
            else:
                harness.append(r)
            continue
        agg.add(r['value'], r.get('wall', 0))
    if retry:
        os.environ['VERIF_RUN_CAP_S'] = '90'
        runner.RUN_CAP_S = 90.0
        for it in retry[:5]:
            r = runner.run_cases('sim.engine', 'run_case', [it], workers=1)[0]
            if not r['ok']:
                harness.append(r)
            else:
                agg.add(r['value'], r.get('wall', 0))
        for it in retry[5:]:
            harness.append({'ok': False, 'kind': 'HARNESS-TIMEOUT', 'detail': 'too many timeouts', 'item': it})

    # 2b. determinism re-check: the first cases again, in this process tree with one worker; event-log digests must agree
    nre = 4 if tier == 'quick' else 24
    redo = runner.run_cases('sim.engine', 'run_case', items[:nre], workers=1)
    first = {idx: tr for idx, tr in agg.traces}
    det_bad = 0
    for r in redo:
        if r and r['ok'] and r['value']['idx'] in first and first[r['value']['idx']] != r['value']['trace']:
            det_bad += 1
    agg.determinism = {'rechecked': len([r for r in redo if r and r['ok']]), 'mismatches': det_bad}
    if det_bad:
        harness.append({'ok': False, 'kind': 'HARNESS-NONDETERMINISM', 'detail': '%d of %d re-executed cases gave another event log' % (det_bad, nre)})

    # 3. classify violations
    groups = {}
    for res in agg.with_violations:
        for v in res['violations']:
            f = next((f for f in mine if f.state == 'open' and f.matches(v)), None)
            if f is not None:
                known_hits[f.text] = known_hits.get(f.text, 0) + 1
                continue
            key = (v['rule'], json.dumps(v.get('fp'), sort_keys=True, default=jdefault))
            groups.setdefault(key, []).append((res, v))
    reported = 0
    seen_paths = set()
    for key in sorted(groups, key=lambda k: (k[0], k[1])):
        if reported >= int(os.environ.get('VERIF_MAX_REPORTS', '4')):
            break
        res, v = sorted(groups[key], key=lambda rv: rv[0]['idx'])[0]
        case = res['case']
        small = case
        if not os.environ.get('VERIF_NO_SHRINK'):
            def pred(c, rule=v['rule']):
                rr = o.check_case(c, runner.execute)
                return any(x['rule'] == rule for x in rr['violations'])
            try:
                small = shrink.shrink(case, pred, max_evals=cfg.get('shrink_evals', 200), max_s=cfg.get('shrink_s', 60),
                                      hist_keys=getattr(o, 'HIST_KEYS', ('history',)))
            except runner.HarnessFailure:
                small = case
        # re-evaluate the minimised case to get its own violation record, and record the faults that actually fired
        ftrace = []

        def ex_rec(sc):
            r = runner.execute(sc)

            def walk(steps, n):
                for i, st in enumerate(steps):
                    if st is None:
                        continue
                    if st.get('fault_trace'):
                        ftrace.append({'execution': n, 'step': i, 'op': st.get('op'), 'outcome': st.get('out'),
                                       'trace': st['fault_trace']})
                    if st.get('out') == 'crash':
                        ftrace.append({'execution': n, 'step': i, 'op': st.get('op'), 'outcome': 'crash'})
                    if st.get('body'):
                        walk(st['body'], n)
            ex_rec.n += 1
            walk(r['steps'], ex_rec.n)
            return r
        ex_rec.n = 0
        rr = o.check_case(small, ex_rec)
        vv = next((x for x in rr['violations'] if x['rule'] == v['rule']), None)
        if vv is None:
            small, vv = case, v
        # a minimised case may have turned into a known finding
        f = next((f for f in mine if f.state == 'open' and f.matches(vv)), None)
        if f is not None and small is not case:
            small, vv = case, v
        path = write_replay(prop, small, vv, {'original_ops': shrink.count_ops(case['scenario'].get('history', [])),
                                              'minimised_ops': shrink.count_ops(small['scenario'].get('history', [])),
                                              'occurrences': len(groups[key]), 'fault_trace': ftrace[:40]})
        if path in seen_paths:
            continue
        seen_paths.add(path)
        # fresh-process reproduction
        ok = reproduce(path, prop)
        if ok:
            print('VIOLATION property=%s replay=%s' % (prop, path), file=out)
            print('  rule=%s fp=%s' % (vv['rule'], json.dumps(vv.get('fp'), default=jdefault, sort_keys=True)), file=out)
            print('  detail=%s' % json.dumps(vv.get('detail'), default=jdefault, sort_keys=True)[:600], file=out)
            exit_code = 1
            reported += 1
        else:
            print('HARNESS-NONDETERMINISM property=%s replay=%s did not reproduce in a fresh process' % (prop, path),
                  file=out)
            harness.append({'ok': False, 'kind': 'HARNESS-NONDETERMINISM', 'detail': path})
    n_unknown = sum(len(g) for g in groups.values())

    for h in harness[:5]:
        print('%s property=%s %s' % (h['kind'], prop, str(h.get('detail'))[-1200:]), file=out)
    if harness and exit_code == 0:
        exit_code = 2

    wall_s = time.monotonic() - t0
    ev = agg.evidence(prop, tier, seed, o, wall_s, n_unknown, known_hits, len(harness), n)
    evdir = os.environ.get('VERIF_EVIDENCE_DIR') or os.path.join(ROOT, 'evidence')
    os.makedirs(evdir, exist_ok=True)
    with open(os.path.join(evdir, '%s.json' % prop), 'w') as f:
        json.dump(ev, f, indent=1, default=jdefault, sort_keys=True)
    print('%s %s: cases=%d executions=%d nontrivial=%d violations=%d known_hits=%d harness=%d wall=%.1fs exit=%d' % (
        prop, tier, agg.cases, agg.execs, len(agg.nontrivial), n_unknown, sum(known_hits.values()), len(harness), wall_s,
        exit_code), file=out)
    return exit_code


def replay_worker(item):
    path, prop = item
    rec, res, same = replay_file(path, prop)
    return bool(same)


def reproduce(path, prop):
    env = dict(os.environ)
    env['PYTHONHASHSEED'] = '0'
    p = subprocess.run([sys.executable, '-m', 'sim.cli', prop, '--replay', path, '--quiet'], cwd=ROOT, env=env,
                       capture_output=True, text=True, timeout=600)
    return p.returncode == 1


class Aggregate:
    def __init__(self):
        self.cases = 0
        self.execs = 0
        self.nontrivial = set()
        self.digests = set()
        self.faults = {}
        self.probes = {}
        self.interleavings = set()
        self.states = set()
        self.sim_time = 0.0
        self.samples = []
        self.with_violations = []
        self.seams = {}
        self.case_wall = 0.0
        self.skipped = {}
        self.traces = []

    def add(self, res, wall):
        self.cases += 1
        st = res.get('stats', {})
        self.execs += st.get('execs', 1)
        d = st.get('digest')
        if d:
            self.digests.add(d)
            if st.get('nontrivial'):
                self.nontrivial.add(d)
        for k, v in (st.get('faults') or {}).items():
            self.faults[k] = self.faults.get(k, 0) + v
        for k, v in (st.get('probes') or {}).items():
            self.probes[k] = self.probes.get(k, 0) + v
        for k, v in (st.get('skipped') or {}).items():
            self.skipped[k] = self.skipped.get(k, 0) + v
        if st.get('interleaving'):
            self.interleavings.add(st['interleaving'])
        for s in st.get('state_sigs') or []:
            self.states.add(s)
        self.sim_time += st.get('sim_time_s', 0.0)
        for k, v in (st.get('seams') or {}).items():
            self.seams[k] = self.seams.get(k, True) and bool(v)
        self.case_wall += wall
        self.traces.append((res.get('idx'), res.get('trace')))
        if 'case' in res and len(self.samples) < 2 and not res['violations']:
            self.samples.append(_sample(res['case']))
        if res['violations']:
            self.with_violations.append(res)

    def evidence(self, prop, tier, seed, o, wall_s, n_viol, known_hits, n_harness, planned):
        cov = {
            'evaluations': self.execs,
            'cases': self.cases,
            'cases_planned': planned,
            'distinct_nontrivial': len(self.nontrivial),
            'distinct_cases': len(self.digests),
            'rule': o.RULE,
            'samples': self.samples or [{'note': 'no sample recorded'}],
            'runs_per_hour': int(self.execs / wall_s * 3600) if wall_s > 0 else 0,
            'cases_per_hour': int(self.cases / wall_s * 3600) if wall_s > 0 else 0,
            'seeds': {'verif_seed': seed, 'case_indices': [0, self.cases]},
            'sim_time_covered_s': round(self.sim_time, 3),
            'faults_fired': self.faults,
            'probes': self.probes,
            'skipped': self.skipped,
            'distinct_interleavings': len(self.interleavings),
            'distinct_states': len(self.states),
            'components': getattr(o, 'COMPONENTS', COMPONENTS),
            'seams_live': self.seams,
            'known_findings_hit': known_hits,
            'determinism': getattr(self, 'determinism', None),
            'harness_problems': n_harness,
            'exhaustive': False,
        }
        return {'property_id': prop, 'tier': tier, 'seed': seed, 'level': o.LEVEL, 'coverage': cov,
                'assumptions': getattr(o, 'ASSUMPTIONS', []) + COMMON_ASSUMPTIONS,
                'wall_s': round(wall_s, 2), 'violations': n_viol}


COMPONENTS = {
    'real': ['dliswriter (all of it, from /repo/src working tree)', 'numpy', 'h5py/HDF5', 'CPython io on tmpfs files',
             'libc time zone database'],
    'stub': ['SimFile proxy between dliswriter and the OS (fault plan, snapshots)', 'simulated clock (origin.datetime.now)',
             'seeded numpy RNG', 'h5py.File proxy (only when a read fault is scheduled)',
             'sys.settrace interrupt injector'],
}
COMMON_ASSUMPTIONS = [
    'sim/rp66.py (independent strict reader written from the standard) is correct; validated by selftest oracle',
    'a forked child of the pristine zygote is equivalent to a fresh process (validated by selftest determinism)',
    'process death leaves page-cache content intact (no power-loss model; the code never fsyncs)',
]


def _sample(case):
    sc = case.get('scenario', {})
    h = sc.get('history', [])
    s = {'idx': case.get('idx'), 'env': sc.get('env'), 'params': case.get('params'), 'n_ops': shrink.count_ops(h),
         'ops': [_brief(op) for op in h[:40]]}
    return s


def _brief(op):
    b = {k: v for k, v in op.items() if k in ('op', 'kind', 'name', 'h', 'fid', 'lf', 'c', 'path', 'input_chunk_size',
                                               'output_chunk_size', 'from_idx', 'to_idx', 'faults', 'form', 'attr', 'part')}
    if 'kwargs' in op:
        b['kwargs'] = sorted(op['kwargs'])
    if op.get('op') == 'hc_block':
        b['body'] = [_brief(x) for x in op.get('body', [])]
    return b
