"""./selftest determinism|fresh|oracle  - self-tests of the machinery itself (not of dliswriter)."""
import os
import sys
import json
import hashlib
import argparse
import subprocess

from . import engine, runner

ROOT = engine.ROOT


def traces(prop, seed, n, workers, tier='quick'):
    items = [(prop, seed, i, tier, []) for i in range(n)]
    res = runner.run_cases('sim.engine', 'run_case', items, workers=workers)
    out = []
    for r in res:
        if r is None or not r['ok']:
            out.append('HARNESS:' + str(r and r.get('kind')))
        else:
            out.append(r['value']['trace'] + ':' + ','.join(sorted(v['rule'] for v in r['value']['violations'])))
    return out


def cmd_traces(a):
    print(json.dumps(traces(a.prop, a.seed, a.cases, a.workers)))


def determinism(props, n, seed):
    """Each case: twice in this process tree (16 workers, then 3 workers), once in a fresh interpreter with
    another PYTHONHASHSEED and 1 worker; all event-log digests must agree."""
    bad = 0
    total = 0
    for prop in props:
        a = traces(prop, seed, n, 16)
        b = traces(prop, seed, n, 3)
        env = dict(os.environ)
        env['PYTHONHASHSEED'] = '4242'
        p = subprocess.run([sys.executable, '-m', 'sim.selftest', 'traces', prop, '--cases', str(n), '--seed', str(seed),
                            '--workers', '2'], cwd=ROOT, env=env, capture_output=True, text=True, timeout=3600)
        try:
            c = json.loads(p.stdout.strip().splitlines()[-1])
        except Exception:
            print('DETERMINISM %s: fresh interpreter failed: %s' % (prop, p.stderr[-500:]))
            bad += 1
            continue
        mism = [i for i in range(n) if not (a[i] == b[i] == c[i])]
        harness = [i for i in range(n) if a[i].startswith('HARNESS')]
        total += n
        bad += len(mism) + len(harness)
        print('DETERMINISM %s: cases=%d mismatches=%d harness=%d %s' % (prop, n, len(mism), len(harness),
                                                                       [(i, a[i], b[i], c[i]) for i in mism[:3]]))
    print('DETERMINISM total cases=%d x3 executions, bad=%d' % (total, bad))
    return 1 if bad else 0


FRESH_SNIPPET = r'''
import sys, json, os, tempfile, shutil, pickle
sys.path.insert(0, %(root)r)
from sim import world as W, engine
sc = json.load(open(%(scfile)r))
scratch = tempfile.mkdtemp(prefix='verif-fresh-', dir=%(shm)r)
try:
    w = W.World(scratch, sc.get('env'))
    w.install()
    w.run(sc['history'])
    print(engine.canon(w.results))
finally:
    shutil.rmtree(scratch, ignore_errors=True)
'''


def fresh(props, n, seed):
    """Zygote fork == true fresh process: run scenarios (first execution of each case) in `python -c`."""
    import tempfile
    bad = 0
    tot = 0
    for prop in props:
        o = engine.oracle(prop)
        for i in range(n):
            rng = engine.case_rng(seed, prop, i)
            case = o.gen_case(rng, 'quick', set())
            captured = []

            def ex(sc):
                r = runner.execute(sc)
                if not captured and not any(op.get('op') == 'restart' for op in sc['history']):
                    captured.append((sc, engine.canon(r['steps'])))
                return r
            o.check_case(case, ex)
            if not captured:
                continue
            sc, want = captured[0]
            with tempfile.NamedTemporaryFile('w', suffix='.json', delete=False, dir=runner.SCRATCH_ROOT) as f:
                json.dump(sc, f, default=engine.jdefault)
            try:
                env = dict(os.environ)
                env['PYTHONHASHSEED'] = str(1000 + i)
                p = subprocess.run([sys.executable, '-c', FRESH_SNIPPET % {'root': ROOT, 'scfile': f.name,
                                                                             'shm': runner.SCRATCH_ROOT}],
                                   env=env, capture_output=True, text=True, timeout=300)
                got = p.stdout.strip().splitlines()[-1] if p.stdout.strip() else 'ERR ' + p.stderr[-300:]
            finally:
                os.unlink(f.name)
            tot += 1
            if got != want:
                bad += 1
                print('FRESH mismatch %s case %d' % (prop, i))
                if os.environ.get('VERIF_DEBUG'):
                    print(want[:2000]); print(got[:2000])
    print('FRESH zygote-vs-fresh-interpreter scenarios=%d mismatches=%d' % (tot, bad))
    return 1 if bad else 0


def main(argv=None):
    ap = argparse.ArgumentParser()
    sub = ap.add_subparsers(dest='cmd')
    t = sub.add_parser('traces')
    t.add_argument('prop'); t.add_argument('--cases', type=int, default=32); t.add_argument('--seed', type=int, default=0)
    t.add_argument('--workers', type=int, default=1)
    d = sub.add_parser('determinism')
    d.add_argument('--props', default=''); d.add_argument('--cases', type=int, default=48); d.add_argument('--seed', type=int, default=0)
    f = sub.add_parser('fresh')
    f.add_argument('--props', default=''); f.add_argument('--cases', type=int, default=6); f.add_argument('--seed', type=int, default=0)
    o = sub.add_parser('oracle')
    a = ap.parse_args(argv)
    props = [p for p in getattr(a, 'props', '').split(',') if p] or available()
    if a.cmd == 'traces':
        return cmd_traces(a)
    if a.cmd == 'determinism':
        return determinism(props, a.cases, a.seed)
    if a.cmd == 'fresh':
        return fresh(props, a.cases, a.seed)
    if a.cmd == 'oracle':
        from . import oracle_selftest
        return oracle_selftest.main()
    ap.print_help()
    return 2


def available():
    out = []
    for fn in sorted(os.listdir(os.path.join(ROOT, 'sim', 'oracles'))):
        if fn.startswith('c') and fn[1:3].isdigit() and fn.endswith('.py'):
            out.append(fn[:-3].upper())
    return out


if __name__ == '__main__':
    sys.exit(main())
