"""./selftest oracle - validation of the trusted base (DESIGN.md 7.3).

(a) golden vectors transcribed from the standard for the value decoders and a hand-assembled minimal file;
(b) agreement of the strict reader with dlisio on a batch of fault-free files (dlisio can confirm, never convict);
(c) corruptions of well-formed files must be rejected with the right rule;
(d) projection builder: identity history (no foreign ops) => projection == history.
"""
import os
import sys
import struct
import random
import tempfile

from . import rp66, runner, engine, gen, genmeta, project as P, model as M

FAILS = []


def check(name, cond, detail=''):
    if not cond:
        FAILS.append(name)
        print('ORACLE-SELFTEST FAIL %s %s' % (name, detail))


def golden():
    c = rp66.Cur(bytes.fromhex('7f'))
    check('uvari_1byte', rp66.rd_uvari(c) == 127 and c.p == 1)
    c = rp66.Cur(bytes.fromhex('8080'))
    check('uvari_2byte_128', rp66.rd_uvari(c) == 128 and c.p == 2)
    c = rp66.Cur(bytes.fromhex('bfff'))
    check('uvari_2byte_16383', rp66.rd_uvari(c) == 16383)
    c = rp66.Cur(bytes.fromhex('c0004000'))
    check('uvari_4byte_16384', rp66.rd_uvari(c) == 16384 and c.p == 4)
    c = rp66.Cur(bytes.fromhex('ffffffff'))
    check('uvari_4byte_max', rp66.rd_uvari(c) == 2 ** 30 - 1)
    v, raw = rp66.rd_value(21, rp66.Cur(bytes.fromhex('57141315140f026c')))
    check('dtime_standard_example', v == {'y': 1987, 'tz': 1, 'mo': 4, 'd': 19, 'h': 21, 'mn': 20, 's': 15, 'ms': 620}, str(v))
    v, _ = rp66.rd_value(23, rp66.Cur(bytes.fromhex('8081') + b'\x02' + b'\x03ABC'))
    check('obname', v == (129, 2, 'ABC'), str(v))
    v, _ = rp66.rd_value(24, rp66.Cur(b'\x04TOOL' + b'\x00\x00\x01T'))
    check('objref', v == ('TOOL', 0, 0, 'T'), str(v))
    v, _ = rp66.rd_value(2, rp66.Cur(struct.pack('>f', 153.0)))
    check('fsingl_153', v == 153.0)
    v, _ = rp66.rd_value(7, rp66.Cur(bytes.fromhex('4063200000000000')))
    check('fdoubl_153', v == 153.0)
    v, _ = rp66.rd_value(13, rp66.Cur(bytes.fromhex('ff67')))
    check('snorm_-153', v == -153)
    v, _ = rp66.rd_value(20, rp66.Cur(b'\x03ab c'[:1] + b'ab '))
    check('ascii', v == 'ab ')
    try:
        rp66.rd_value(26, rp66.Cur(b'\x02'))
        check('status_2_rejected', False)
    except rp66.DecodeError:
        pass
    try:
        rp66.rd_value(21, rp66.Cur(bytes.fromhex('573d1315140f026c')))
        check('dtime_month_13_rejected', False)
    except rp66.DecodeError:
        pass
    # hand-assembled minimal file: SUL + one VR holding a FILE-HEADER EFLR in one segment
    sul = b'   1V1.00RECORD 8192' + b'HAND-MADE'.ljust(60)
    body = (b'\xf0\x0bFILE-HEADER' + b'\x34\x0fSEQUENCE-NUMBER\x14' + b'\x34\x02ID\x14' + b'\x70\x00\x00\x01\x30' +
            b'\x21\x0a' + b'         1' + b'\x21\x41' + b'ID'.ljust(65))
    seg = struct.pack('>HBB', len(body) + 4 + (len(body) % 2), 0x80 | (0x01 if len(body) % 2 else 0), 0) + body + (b'\x01' if len(body) % 2 else b'')
    vr = struct.pack('>H', len(seg) + 4) + b'\xff\x01' + seg
    f = rp66.decode_file(sul + vr)
    check('hand_file_decodes', not f.errors, str(f.errors[:2]))
    check('hand_file_content', len(f.lfs) == 1 and f.lfs[0].header.objects[0].attrs['ID'].values == ['ID'.ljust(65)])
    return f, sul + vr


def corruptions(data):
    """Each mutation of a well-formed file must be reported under the expected rule."""
    base = rp66.decode_file(data)
    check('base_clean', not base.errors, str(base.errors[:2]))
    fr = base.framing
    cases = []
    b = bytearray(data)
    b[82] = 0x00
    cases.append(('vr_marker', bytes(b), 'framing.vr_marker'))
    b = bytearray(data)
    b[81] ^= 0x01
    cases.append(('vr_length_odd', bytes(b), 'framing.vr_length_odd'))
    b = bytearray(data)
    off = fr.segs[0].off
    b[off + 2] |= 0x04
    cases.append(('checksum_bit', bytes(b), 'framing.seg_attr_bits'))
    b = bytearray(data)
    b[off + 1] ^= 0x02
    cases.append(('seg_length_changed', bytes(b), 'framing.vr_not_tiled'))
    cases.append(('trailing_bytes', data + b'\x00\x00', 'framing.trailing_bytes'))
    cases.append(('truncated', data[:-3], 'framing.vr_truncated'))
    b = bytearray(data)
    b[4:9] = b'V2.00'
    cases.append(('sul_version', bytes(b), 'framing.sul_field'))
    padded = next((s for s in fr.segs if s.pad), None)
    if padded is not None:
        b = bytearray(data)
        b[padded.off + padded.length - 1] = 0
        cases.append(('pad_count_zero', bytes(b), 'framing.pad_count'))
        b = bytearray(data)
        b[padded.off + 2] &= 0xFE
        cases.append(('pad_flag_dropped', bytes(b), None))      # body grows by the pad byte: a later layer must notice
    multi = next((i for i, s in enumerate(fr.segs) if s.has_succ), None)
    if multi is not None:
        b = bytearray(data)
        b[fr.segs[multi].off + 2] &= ~0x20 & 0xFF
        cases.append(('successor_bit_dropped', bytes(b), 'reasm.bracketing'))
        b = bytearray(data)
        b[fr.segs[multi + 1].off + 3] ^= 0x01
        cases.append(('type_varies', bytes(b), 'reasm.type_or_flag_varies'))
    for name, d, rule in cases:
        f = rp66.decode_file(d)
        rules = [e.rule for e in f.errors]
        if rule is None:
            check('corruption_' + name, bool(rules), 'no error at all')
        else:
            check('corruption_' + name, rule in rules, 'expected %s got %s' % (rule, rules[:4]))
    # EFLR-level corruptions on the first multi-object set
    recs = base.records
    eflr = next((r for r in recs if r.is_eflr and r.type != 0), None)
    if eflr is not None:
        s = rp66.parse_eflr(eflr.body + b'\x00')
        check('eflr_trailing_byte', bool(s.errors), 'trailing byte accepted')
        # (cutting the tail of an arbitrary set may only drop trailing absent attributes, which is legal: use a body whose
        # last component is known to carry a value)
        hb = next(r for r in recs if r.is_eflr and r.type == 0).body
        s = rp66.parse_eflr(hb[:-3])
        check('eflr_truncated', bool(s.errors), 'truncated set accepted')
        s = rp66.parse_eflr(b'\x70' + eflr.body[1:])
        check('eflr_no_set_component', any(e.rule == 'eflr.no_set_component' for e in s.errors))


def reader_is_total(files):
    """The strict reader never raises: random corruptions (flips, truncations, splices) of well-formed files."""
    rng = random.Random(99)
    n = 0
    for sc, res, data in files[:12]:
        for _ in range(60):
            b = bytearray(data)
            k = rng.random()
            if k < 0.5:
                for _ in range(rng.choice([1, 1, 2, 8])):
                    b[rng.randrange(len(b))] = rng.randrange(256)
            elif k < 0.7:
                b = b[:rng.randrange(len(b))]
            elif k < 0.85:
                i = rng.randrange(len(b))
                b[i:i] = rng.randbytes(rng.choice([1, 2, 7]))
            else:
                i, j = sorted((rng.randrange(len(b)), rng.randrange(len(b))))
                del b[i:j]
            try:
                f = rp66.decode_file(bytes(b))
                rp66.summarize(f)
                n += 1
            except Exception as e:
                check('reader_total', False, repr(e))
                return
    check('reader_total', n > 0)


def make_files(n, seed=7):
    """n fault-free files from the metadata-rich generator (+ their scenarios)."""
    out = []
    for i in range(n):
        rng = random.Random('oracle:%d:%d' % (seed, i))
        spec = gen.Spec(rng)
        gen.simple_file(rng, spec=spec, mrl=gen.record_length(rng, small=0.5), n_lf=rng.choice([1, 1, 2]), max_width=4)
        for lfi in spec.lfs:
            genmeta.populate(spec, lfi, rng, n=rng.choice([2, 5, 9]), p_attr=0.5,
                             set_name=('S%d' % spec.lfs.index(lfi)) if len(spec.lfs) > 1 else None)
        sc = {'env': {'tz': 'UTC'}, 'history': spec.ops + [gen.write_op(spec, path='o.dlis')]}
        res = runner.execute(sc)
        st = res['steps'][-1]
        if st and st['out'] == 'ok':
            out.append((sc, res, st['file']))
    return out


def dlisio_agreement(files):
    try:
        from dlisio import dlis
    except Exception as e:        # dlisio not importable: this sub-check is skipped, never failed
        print('ORACLE-SELFTEST dlisio unavailable (%r): agreement check skipped' % e)
        return 0
    n = 0
    for sc, res, data in files:
        f = rp66.decode_file(data)
        check('strict_reader_accepts_writer_output', not f.errors, str(f.errors[:2]))
        with tempfile.NamedTemporaryFile(suffix='.dlis', dir=runner.SCRATCH_ROOT, delete=False) as t:
            t.write(data)
        try:
            with dlis.load(t.name) as lfs:
                check('dlisio_lf_count', len(lfs) == len(f.lfs), '%d vs %d' % (len(lfs), len(f.lfs)))
                for dl, sl in zip(lfs, f.lfs):
                    for typ in ('CHANNEL', 'FRAME', 'ZONE', 'PARAMETER', 'TOOL', 'EQUIPMENT', 'AXIS'):
                        mine = sorted((o.name[2], o.name[0], o.name[1]) for s, o in sl.objects(typ))
                        theirs = sorted((o.name, o.origin, o.copynumber) for o in dl.find('^' + typ + '$', '.*'))
                        check('dlisio_inventory_' + typ, mine == theirs, '%s vs %s' % (mine[:3], theirs[:3]))
                    for fr in dl.frames:
                        key = (fr.origin, fr.copynumber, fr.name)
                        mine = sl.frames.get(key)
                        curves = fr.curves()
                        check('dlisio_row_count', mine is not None and len(mine.rows) == len(curves),
                              '%s %s' % (key, mine and len(mine.rows)))
                        if mine is not None and len(curves) and mine.rows[0][1] is not None:
                            lay = rp66.channel_layout(sl, sl.find_object('FRAME', key)[0])
                            code, nel = lay[0][1], lay[0][2]
                            if nel == 1 and code in (2, 7, 12, 13, 14, 15, 16, 17):
                                fmt = {2: '>f', 7: '>d', 12: '>b', 13: '>h', 14: '>i', 15: '>B', 16: '>H', 17: '>I'}[code]
                                a = [struct.unpack(fmt, r[1][0])[0] for r in mine.rows]
                                b = [row[1] for row in curves.tolist()]
                                same = all((x == y) or (x != x and y != y) for x, y in zip(a, b))
                                check('dlisio_first_channel_values', same, '%s vs %s' % (a[:3], b[:3]))
            n += 1
        finally:
            os.unlink(t.name)
    return n


def projection_identity(files):
    for sc, res, data in files[:6]:
        k = len(sc['history']) - 1
        proj = P.project(sc['history'], res['steps'], k, path='o.dlis')
        check('projection_identity', proj == sc['history'], 'projection of a single-file history differs from it')
        r2 = runner.execute({'env': sc['env'], 'history': proj})
        check('projection_bytes', r2['steps'][-1]['file'] == data)


def main():
    runner.warm()
    f, hand = golden()
    files = make_files(24)
    check('generator_produces_files', len(files) >= 20, str(len(files)))
    big = max(files, key=lambda x: len(x[2]))[2]
    small_mrl = None
    for sc, res, data in files:
        fr = rp66.parse_framing(data)
        if any(s.has_succ for s in fr.segs) and any(s.pad for s in fr.segs):
            small_mrl = data
            break
    corruptions(small_mrl or big)
    reader_is_total(files)
    n = dlisio_agreement(files)
    projection_identity(files)
    print('ORACLE-SELFTEST golden vectors ok; %d files cross-checked with dlisio; corruptions rejected; projection identity ok; '
          'failures=%d' % (n, len(FAILS)))
    return 1 if FAILS else 0


if __name__ == '__main__':
    sys.exit(main())
