"""JSON <-> Python literal codec for scenario files, and deterministic array recipes.

Everything a scenario passes to dliswriter is described as data so that scenarios can be
generated, shrunk, stored and replayed without a PRNG.  Tagged forms:

  {"$ref": h}                     object created earlier under handle h
  {"$dt": iso, "tz": null|minutes|"Zone/Name"}   datetime (naive / fixed offset / zoneinfo)
  {"$enum": [EnumClass, MEMBER]}  member of dliswriter.enums.<EnumClass>
  {"$bytes": hex} {"$bytearray": hex} {"$tuple": [...]} {"$text": str (a new str object each time, not a literal)}
  {"$setup": {"value":..,"units":..}}   dliswriter.AttrSetup
  {"$dict": {...}}                plain dict (values decoded)
  {..., "$share": key}            any of the above: the SAME object is handed over wherever the key recurs (caller reuses an object)
  {"$npscalar": [dtype, value]}   numpy scalar
  {"$dtype": "float32"}           numpy scalar type     {"$npdtype": "<f4"}  numpy dtype instance
  {"$arr": recipe}                numpy array, see make_array
  {"$obj": "object"}              an arbitrary non-supported Python object (for rejected calls)
"""
import sys
import random
import datetime as _dt
import numpy as np


def _tz(tz):
    if tz is None:
        return None
    if isinstance(tz, (int, float)):
        return _dt.timezone(_dt.timedelta(minutes=tz))
    import zoneinfo
    return zoneinfo.ZoneInfo(tz)


def make_array(rc, registry=None):
    """Materialise an array recipe.

    recipe keys: dtype (numpy dtype str incl. byte order), shape [rows] or [rows, width],
      kind: 'rand' (seed) | 'vals' (vals: flat list) | 'ramp' (start, step, jitter=[...]) | 'hex' (hex)
      layout: 'C' | 'F' | 'strided' | 'readonly' | 'view'   (default C)
      specials: [[flat index, 'nan'|'inf'|'-inf'|'-0'], ...] for float dtypes
      skip, rows: optional ints - drop the first `skip` rows, then keep only the first `rows` rows
      masked: seed - (only when materialised for the simulated caller) wrap as numpy.ma.MaskedArray with a seeded mask
    `registry`, if given, receives (label, base buffer) pairs for caller-buffer checksums.
    """
    dt = np.dtype(rc['dtype'])
    shape = tuple(rc['shape'])
    n = 1
    for s in shape:
        n *= s
    kind = rc.get('kind', 'rand')
    if kind == 'rand':
        raw = random.Random(rc.get('seed', 0)).randbytes(n * dt.itemsize)
        a = np.frombuffer(raw, dtype=dt).copy()
    elif kind == 'hex':
        a = np.frombuffer(bytes.fromhex(rc['hex']), dtype=dt).copy()
    elif kind == 'vals':
        a = np.array(rc['vals'], dtype=dt.newbyteorder('=')).astype(dt)
    elif kind == 'ramp':
        start, step = rc.get('start', 0), rc.get('step', 1)
        jit = rc.get('jitter') or [0]
        vals = [start + step * i + jit[i % len(jit)] for i in range(n)]
        nat = dt.newbyteorder('=')
        if nat.kind in 'iu':
            info = np.iinfo(nat)
            vals = [min(max(int(v), info.min), info.max) for v in vals]
        a = np.array(vals, dtype=nat).astype(dt)
    else:
        raise ValueError('unknown array kind %r' % kind)
    a = a.reshape(shape)
    if rc.get('specials') and dt.kind == 'f' and a.size:
        # non-finite and signed-zero values at given flat positions (gaps in real logs)
        flat = a.reshape(-1)
        for pos, what in rc['specials']:
            flat[int(pos) % flat.size] = {'nan': np.nan, 'inf': np.inf, '-inf': -np.inf, '-0': -0.0}[what]
    skip = rc.get('skip')
    if skip:
        a = a[skip:]
    rows = rc.get('rows')
    if rows is not None:
        a = a[:rows]
    layout = rc.get('layout', 'C')
    base = a
    if layout == 'F' and a.ndim == 2:
        a = np.asfortranarray(a)
        base = a
    elif layout == 'strided':
        big = np.zeros((a.shape[0] * 2,) + a.shape[1:], dtype=dt)
        big[::2] = a
        big[1::2] = np.frombuffer(b'\xa5' * (a.size * dt.itemsize), dtype=dt).reshape(a.shape) if a.size else a
        base = big
        a = big[::2]
    elif layout == 'view':
        g = 3
        big = np.frombuffer(b'\x5a' * ((a.shape[0] + 2 * g) * (a.size // max(a.shape[0], 1)) * dt.itemsize),
                            dtype=dt).copy().reshape((a.shape[0] + 2 * g,) + a.shape[1:])
        big[g:g + a.shape[0]] = a
        base = big
        a = big[g:g + a.shape[0]]
    elif layout == 'readonly':
        a.flags.writeable = False
    if registry is not None:
        registry.append(base)
        if rc.get('masked') is not None:
            # the caller holds a numpy masked array (absent samples masked out): data buffer AND mask are the caller's memory
            mask = np.frombuffer(random.Random(rc['masked']).randbytes(max(a.size, 1)), dtype=np.uint8)[:a.size].reshape(a.shape) < 80
            registry.append(mask)
            a = np.ma.MaskedArray(a, mask=mask, copy=False)
            a._sharedmask = False
    return a


class Codec:
    """Decode scenario literals into Python objects; `objs` maps handles to live objects."""

    def __init__(self, objs, registry=None):
        self.objs = objs
        self.registry = registry
        self.shared = {}          # '$share' key -> the one object the simulated caller passes again and again

    def dec(self, v):
        if isinstance(v, list):
            return [self.dec(x) for x in v]
        if isinstance(v, str):
            # the simulated caller passes string literals: interned, as in real code - and identical in every process, so that
            # code comparing objects by identity behaves the same in a worker, a fresh interpreter and a replay
            return sys.intern(v)
        if not isinstance(v, dict):
            return v
        if '$share' in v:
            # the caller reuses ONE object (a dict, an AttrSetup) for several calls: decoded once, the same object afterwards
            key = v['$share']
            if key not in self.shared:
                self.shared[key] = self.dec({k: x for k, x in v.items() if k != '$share'})
            return self.shared[key]
        if '$originref_of' in v:
            # the caller reads the reference back from an origin it created and passes it on: origin_reference=o.origin_reference
            return self.objs[v['$originref_of']].origin_reference
        if '$ref' in v:
            return self.objs[v['$ref']]
        if '$dt' in v:
            d = _dt.datetime.fromisoformat(v['$dt'])
            tz = _tz(v.get('tz'))
            if v.get('fold'):
                d = d.replace(fold=1)          # the second occurrence of a wall-clock time repeated when DST ends
            return d.replace(tzinfo=tz) if tz is not None else d
        if '$enum' in v:
            from dliswriter import enums
            return getattr(getattr(enums, v['$enum'][0]), v['$enum'][1])
        if '$text' in v:
            # text the caller built at run time (read from a report, formatted): a NEW str object at every hand-over, not a literal
            return ''.join(list(v['$text']))
        if '$bytes' in v:
            return bytes.fromhex(v['$bytes'])
        if '$bytearray' in v:
            return bytearray.fromhex(v['$bytearray'])
        if '$tuple' in v:
            return tuple(self.dec(x) for x in v['$tuple'])
        if '$setup' in v:
            from dliswriter import AttrSetup
            return AttrSetup(**{k: self.dec(x) for k, x in v['$setup'].items()})
        if '$dict' in v:
            return {k: self.dec(x) for k, x in v['$dict'].items()}
        if '$npscalar' in v:
            return np.dtype(v['$npscalar'][0]).type(v['$npscalar'][1])
        if '$dtype' in v:
            return getattr(np, v['$dtype'])
        if '$npdtype' in v:
            return np.dtype(v['$npdtype'])
        if '$arr' in v:
            return make_array(v['$arr'], self.registry)
        if '$obj' in v:
            return object()
        if '$set' in v:
            return set(self.dec(x) for x in v['$set'])
        if not any(isinstance(k, str) and k.startswith('$') for k in v):
            return {k: self.dec(x) for k, x in v.items()}
        raise ValueError('unknown literal %r' % (v,))


def refs_in(v, out=None):
    """All handles referenced by a literal."""
    if out is None:
        out = []
    if isinstance(v, list):
        for x in v:
            refs_in(x, out)
    elif isinstance(v, dict):
        if '$ref' in v:
            out.append(v['$ref'])
        elif '$originref_of' in v:
            out.append(v['$originref_of'])
        else:
            for x in v.values():
                refs_in(x, out)
    return out


def dt_lit(d):
    """datetime -> literal (naive or fixed offset only)."""
    tz = None
    if d.tzinfo is not None:
        key = getattr(d.tzinfo, 'key', None)
        tz = key if key else int(d.utcoffset().total_seconds() // 60)
    return {'$dt': d.replace(tzinfo=None).isoformat(), 'tz': tz}
