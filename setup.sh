#!/bin/bash
# Offline setup: nothing to build; verify the interpreter and the libraries the checks need.
set -e
cd "$(dirname "$0")"
/venv/bin/python -c "import numpy, h5py, dlisio, progressbar; import sys; sys.path.insert(0, '/repo/src'); import dliswriter; print('setup ok', numpy.__version__, h5py.__version__)"
mkdir -p evidence replays
